//! The executable reference model: plain vectors of records. Library IDs are positions in the
//! pre-encode vectors ("an ID is the position; additions get the next position; conversions keep
//! their ID"), so every reference the model stores is simply the ID the caller used; identity of
//! what an ID designates is a *fingerprint* that can be recognised in the encoded output without
//! assuming any output order.
use crate::ins::{Ins, VT};
use crate::spec::*;
use serde::{Deserialize, Serialize};

pub const FUNC_MAGIC_BASE: i64 = 0x5EED_0000_0000;
pub const PROBE_MAGIC_BASE: i32 = 0x0600_0000;

#[derive(Clone, Debug, PartialEq, Eq, Hash, Serialize, Deserialize, PartialOrd, Ord)]
pub enum Fp {
    /// imported entity: (module, name)
    Imp(String, String),
    /// local function: magic constant at the start of its body
    Magic(i64),
    /// local global with constant initialiser: (type, bits)
    GConst(VT, u128),
    /// local global with non-constant initialiser: unique (type, mutable, kind)
    GOther(VT, bool, String),
    /// local memory: unique minimum size
    MemMin(u64),
    Unknown(String),
}

#[derive(Clone, Copy, Debug, PartialEq, Eq, Hash, Serialize, Deserialize, PartialOrd, Ord)]
pub enum Mode {
    Before,
    After,
    Alternate,
    EmptyAlternate,
    SemanticAfter,
    BlockEntry,
    BlockExit,
    BlockAlt,
    EmptyBlockAlt,
    FuncEntry,
    FuncExit,
}
impl Mode {
    pub fn is_special(self) -> bool {
        !matches!(self, Mode::Before | Mode::After | Mode::Alternate | Mode::EmptyAlternate)
    }
    pub fn name(self) -> &'static str {
        match self {
            Mode::Before => "before",
            Mode::After => "after",
            Mode::Alternate => "alternate",
            Mode::EmptyAlternate => "empty_alternate",
            Mode::SemanticAfter => "semantic_after",
            Mode::BlockEntry => "block_entry",
            Mode::BlockExit => "block_exit",
            Mode::BlockAlt => "block_alt",
            Mode::EmptyBlockAlt => "empty_block_alt",
            Mode::FuncEntry => "func_entry",
            Mode::FuncExit => "func_exit",
        }
    }
}

/// Which public API path performs an injection.
#[derive(Clone, Copy, Debug, PartialEq, Eq, Hash, Serialize, Deserialize, PartialOrd, Ord)]
pub enum Api {
    /// ModuleIterator: walk with next() to the site, mode setter, inject
    IterCursor,
    /// ModuleIterator: `<mode>_at(Location)` then add_instr_at / inject
    IterAt,
    /// ModuleIterator::inject_at(idx, mode, op)
    IterInjectAt,
    /// FunctionModifier: `<mode>_at(Location)` then inject
    Modifier,
    /// FunctionModifier::inject_at(idx, mode, op)
    ModifierInjectAt,
    /// ComponentIterator cursor (component scenarios)
    CompCursor,
    /// ComponentIterator::inject_at
    CompInjectAt,
}
impl Api {
    pub const MODULE: [Api; 5] = [
        Api::IterCursor,
        Api::IterAt,
        Api::IterInjectAt,
        Api::Modifier,
        Api::ModifierInjectAt,
    ];
    pub fn name(self) -> &'static str {
        match self {
            Api::IterCursor => "iter_cursor",
            Api::IterAt => "iter_at",
            Api::IterInjectAt => "iter_inject_at",
            Api::Modifier => "modifier",
            Api::ModifierInjectAt => "modifier_inject_at",
            Api::CompCursor => "comp_cursor",
            Api::CompInjectAt => "comp_inject_at",
        }
    }
}

#[derive(Clone, Debug, PartialEq, Eq, Serialize, Deserialize)]
pub struct Site {
    pub instr: u32,
    pub mode: Mode,
    /// probe body (no structural imbalance); empty for Empty* modes
    pub body: Vec<Ins>,
    /// probe magic (the body starts with `i32.const magic; drop`), 0 if none
    pub magic: i32,
    pub tag: Option<Vec<u8>>,
    /// not an injection but `clear_instr_at(loc, mode)`: whatever was injected at this instruction in
    /// this mode so far is taken back (body empty, magic 0)
    #[serde(default)]
    pub clear: bool,
}

#[derive(Clone, Copy, Debug, PartialEq, Eq, Hash, Serialize, Deserialize)]
pub enum LocalApi {
    Modifier,
    ModifierAddLocals,
    Iterator,
    CompIterator,
}

#[derive(Clone, Debug, PartialEq, Eq, Serialize, Deserialize)]
pub enum TypeReq {
    Func(Vec<VT>, Vec<VT>),
    Struct(Vec<(ST, bool)>),
    Array(ST, bool),
}

#[derive(Clone, Debug, PartialEq, Eq, Serialize, Deserialize)]
pub enum Op {
    AddImportFunc { module: String, name: String, ty: u32, tag: Option<Vec<u8>> },
    BuildFunc {
        params: Vec<VT>,
        results: Vec<VT>,
        locals: Vec<VT>,
        body: Vec<Ins>,
        name: Option<String>,
        tag: Option<Vec<u8>>,
        magic: i64,
    },
    DeleteFunc { id: u32 },
    ConvertLocalToImport { id: u32, module: String, name: String, ty: u32, tag: Option<Vec<u8>> },
    ReplaceImport {
        imp: u32,
        params: Vec<VT>,
        results: Vec<VT>,
        locals: Vec<VT>,
        body: Vec<Ins>,
        tag: Option<Vec<u8>>,
        magic: i64,
    },
    /// via: 0 `Module::set_fn_name`, 1 `functions.set_local_fn_name` (local functions), 2
    /// `imports.set_fn_name(name, FunctionID)` (imports of the parsed module: function ID = rank
    /// among the function imports)
    SetFnName {
        id: u32,
        name: String,
        #[serde(default)]
        via: u8,
    },
    ImportsSetName { imp: u32, name: String },
    AddGlobal { init: ConstE, ty: VT, mutable: bool, tag: Option<Vec<u8>> },
    AddImportedGlobal { module: String, name: String, ty: VT, mutable: bool, tag: Option<Vec<u8>> },
    /// iterator-level `add_global` (IteratingInstrumenter) / Component::add_globals
    IterAddGlobal { init: ConstE, ty: VT, mutable: bool },
    DeleteGlobal { id: u32 },
    ModGlobalInit { id: u32, init: ConstE },
    AddLocalMemory { ty: MemT, tag: Option<Vec<u8>> },
    AddImportMemory { module: String, name: String, ty: MemT, tag: Option<Vec<u8>> },
    DeleteMemory { id: u32 },
    AddData { mode: DataMode, bytes: Vec<u8>, tag: Option<Vec<u8>> },
    AddExportFunc { name: String, id: u32, tag: Option<Vec<u8>> },
    AddExportMem { name: String, id: u32, tag: Option<Vec<u8>> },
    DeleteExport { exp: u32 },
    AddType { req: TypeReq, with_params: Option<(Option<u32>, bool, bool)>, tag: Option<Vec<u8>> },
    CustomAdd { name: String, data: Vec<u8> },
    CustomDelete { id: u32 },
    CustomEdit { id: u32, data: Vec<u8> },
    AddLocal { func: u32, ty: VT, api: LocalApi },
    Inject { func: u32, api: Api, sites: Vec<Site> },
}

impl Op {
    pub fn kind(&self) -> &'static str {
        match self {
            Op::AddImportFunc { .. } => "add_import_func",
            Op::BuildFunc { .. } => "build_func",
            Op::DeleteFunc { .. } => "delete_func",
            Op::ConvertLocalToImport { .. } => "convert_local_to_import",
            Op::ReplaceImport { .. } => "replace_import",
            Op::SetFnName { .. } => "set_fn_name",
            Op::ImportsSetName { .. } => "imports_set_name",
            Op::AddGlobal { .. } => "add_global",
            Op::AddImportedGlobal { .. } => "add_imported_global",
            Op::IterAddGlobal { .. } => "iter_add_global",
            Op::DeleteGlobal { .. } => "delete_global",
            Op::ModGlobalInit { .. } => "mod_global_init",
            Op::AddLocalMemory { .. } => "add_local_memory",
            Op::AddImportMemory { .. } => "add_import_memory",
            Op::DeleteMemory { .. } => "delete_memory",
            Op::AddData { .. } => "add_data",
            Op::AddExportFunc { .. } => "add_export_func",
            Op::AddExportMem { .. } => "add_export_mem",
            Op::DeleteExport { .. } => "delete_export",
            Op::AddType { .. } => "add_type",
            Op::CustomAdd { .. } => "custom_add",
            Op::CustomDelete { .. } => "custom_delete",
            Op::CustomEdit { .. } => "custom_edit",
            Op::AddLocal { .. } => "add_local",
            Op::Inject { .. } => "inject",
        }
    }
}

#[derive(Clone, Debug, Default)]
pub struct ModeList {
    pub ins: Vec<Ins>,
    pub tag: Option<Vec<u8>>,
    pub magics: Vec<(i32, Api)>,
}

#[derive(Clone, Debug)]
pub struct MInstr {
    pub ins: Ins,
    pub before: ModeList,
    pub after: ModeList,
    /// Some(list) = replaced by list (possibly empty = removal)
    pub alternate: Option<ModeList>,
    pub sem_after: ModeList,
    pub block_entry: ModeList,
    pub block_exit: ModeList,
    pub block_alt: Option<ModeList>,
}
impl MInstr {
    pub fn new(ins: Ins) -> Self {
        MInstr {
            ins,
            before: Default::default(),
            after: Default::default(),
            alternate: None,
            sem_after: Default::default(),
            block_entry: Default::default(),
            block_exit: Default::default(),
            block_alt: None,
        }
    }
    pub fn has_special(&self) -> bool {
        !self.sem_after.ins.is_empty()
            || !self.block_entry.ins.is_empty()
            || !self.block_exit.ins.is_empty()
            || self.block_alt.is_some()
    }
}

#[derive(Clone, Debug)]
pub struct MLocal {
    pub magic: i64,
    pub params: Vec<VT>,
    pub results: Vec<VT>,
    /// declared locals (expanded) the function had before any add_local
    pub base_locals: Vec<VT>,
    pub added_locals: Vec<VT>,
    pub body: Vec<MInstr>,
    pub entry: ModeList,
    pub exit: ModeList,
    pub built: bool,
    pub tag: Option<Vec<u8>>,
}
impl MLocal {
    pub fn has_special(&self) -> bool {
        !self.entry.ins.is_empty() || !self.exit.ins.is_empty() || self.body.iter().any(|i| i.has_special())
    }
}

#[derive(Clone, Debug)]
pub enum MFK {
    Import { imp: u32, ty: u32 },
    Local(Box<MLocal>),
}

#[derive(Clone, Debug)]
pub struct MFunc {
    pub kind: MFK,
    pub deleted: bool,
    /// expected name-section entry; `None` = none expected; `Some(None)`... kept simple: see `name_known`
    pub name: Option<String>,
    /// false when the property does not say what the name becomes (converted / replaced)
    pub name_known: bool,
    /// the ID once designated another body (local converted to an import and/or import replaced)
    pub rebodied: bool,
}

#[derive(Clone, Debug)]
pub struct MImport {
    pub spec: ImportSpec,
    pub deleted: bool,
    pub tag: Option<Vec<u8>>,
    pub added: bool,
}

#[derive(Clone, Debug)]
pub enum MGK {
    Import { imp: u32, ty: VT, mutable: bool },
    Local { ty: VT, mutable: bool, init: ConstE, fp: Fp },
}
#[derive(Clone, Debug)]
pub struct MGlobal {
    pub kind: MGK,
    pub deleted: bool,
    pub tag: Option<Vec<u8>>,
    pub name: Option<String>,
    pub added: bool,
}

#[derive(Clone, Debug)]
pub struct MMem {
    pub imp: Option<u32>,
    pub ty: MemT,
    pub deleted: bool,
    pub tag: Option<Vec<u8>>,
    pub added: bool,
}

#[derive(Clone, Debug)]
pub struct MExport {
    pub name: String,
    pub kind: ExtKind,
    pub index: u32,
    pub deleted: bool,
    pub tag: Option<Vec<u8>>,
    pub added: bool,
}

#[derive(Clone, Debug)]
pub struct MData {
    pub mode: DataMode,
    pub bytes: Vec<u8>,
    pub tag: Option<Vec<u8>>,
    pub added: bool,
}

#[derive(Clone, Debug)]
pub struct MType {
    pub ty: SubT,
    pub added: bool,
    pub tag: Option<Vec<u8>>,
}

#[derive(Clone, Debug, PartialEq, Eq)]
pub enum Returned {
    None,
    Id(u32),
    IdImp(u32, u32),
    Bool(bool),
    /// type request: acceptable set of returned indices
    TypeOneOf(Vec<u32>),
}

#[derive(Clone, Debug)]
pub struct Model {
    pub base: ModuleSpec,
    pub types: Vec<MType>,
    pub n_base_types: usize,
    pub funcs: Vec<MFunc>,
    pub imports: Vec<MImport>,
    pub globals: Vec<MGlobal>,
    pub mems: Vec<MMem>,
    pub exports: Vec<MExport>,
    pub start: Option<u32>,
    pub elems: Vec<ElemSpec>,
    pub tables: Vec<TableSpec>,
    pub data: Vec<MData>,
    pub customs: Vec<(String, Vec<u8>)>,
    pub local_names: Vec<(u32, Vec<(u32, String)>)>,
    /// requests made through the type API: (request as SubT, returned)
    pub type_requests: Vec<(SubT, u32)>,
    /// (func id, requested type, returned local id)
    pub local_requests: Vec<(u32, VT, u32)>,
    /// probes accepted by an injection API: (func, magic, mode, api, instr)
    pub accepted_probes: Vec<(u32, i32, Mode, Api, u32)>,
    /// body of every probe with a magic, as the caller built it (references are caller IDs)
    pub probe_bodies: std::collections::BTreeMap<i32, Vec<Ins>>,
}

/// Region removed by a block-alternate on instruction `i`: opener..=matching end for
/// block/loop/if, else..=last instruction before the if's end for else.
pub fn block_region(body: &[MInstr], i: usize) -> Option<(usize, usize)> {
    let n = body.len();
    match body.get(i)?.ins {
        Ins::Block(_) | Ins::Loop(_) | Ins::If(_) => {
            let mut depth = 0i32;
            let mut j = i;
            while j < n {
                match body[j].ins {
                    Ins::Block(_) | Ins::Loop(_) | Ins::If(_) | Ins::TryTable(..) => depth += 1,
                    Ins::End => {
                        depth -= 1;
                        if depth == 0 {
                            return Some((i, j));
                        }
                    }
                    _ => {}
                }
                j += 1;
            }
            None
        }
        Ins::Else => {
            let mut depth = 0i32;
            let mut j = i + 1;
            while j < n {
                match body[j].ins {
                    Ins::Block(_) | Ins::Loop(_) | Ins::If(_) | Ins::TryTable(..) => depth += 1,
                    Ins::End => {
                        if depth == 0 {
                            return Some((i, j - 1));
                        }
                        depth -= 1;
                    }
                    _ => {}
                }
                j += 1;
            }
            None
        }
        _ => None,
    }
}

pub fn func_magic_of(body: &[Ins]) -> Option<i64> {
    for w in body.windows(2) {
        if let (Ins::I64Const(v), Ins::Drop) = (&w[0], &w[1]) {
            if *v >= FUNC_MAGIC_BASE && *v < FUNC_MAGIC_BASE + 0x1_0000_0000 {
                return Some(*v);
            }
        }
    }
    None
}

pub fn global_fp(ty: VT, mutable: bool, init: &ConstE) -> Fp {
    match init {
        ConstE::I32(v) => Fp::GConst(ty, *v as u32 as u128),
        ConstE::I64(v) => Fp::GConst(ty, *v as u64 as u128),
        ConstE::F32(v) => Fp::GConst(ty, *v as u128),
        ConstE::F64(v) => Fp::GConst(ty, *v as u128),
        ConstE::V128(v) => Fp::GConst(ty, *v),
        ConstE::GlobalGet(_) => Fp::GOther(ty, mutable, "global.get".into()),
        ConstE::RefFunc(_) => Fp::GOther(ty, mutable, "ref.func".into()),
        ConstE::RefNull(_) => Fp::GOther(ty, mutable, "ref.null".into()),
        ConstE::ExtAdd(..) => Fp::Unknown("extadd".into()),
        ConstE::StructNew(..) => Fp::GOther(ty, mutable, "struct.new".into()),
    }
}

fn expand(l: &[(u32, VT)]) -> Vec<VT> {
    let mut v = vec![];
    for (n, t) in l {
        for _ in 0..*n {
            v.push(*t);
        }
    }
    v
}

impl Model {
    pub fn new(base: &ModuleSpec) -> Model {
        let mut m = Model {
            base: base.clone(),
            types: base
                .flat_types()
                .into_iter()
                .map(|t| MType {
                    ty: t.clone(),
                    added: false,
                    tag: None,
                })
                .collect(),
            n_base_types: base.flat_types().len(),
            funcs: vec![],
            imports: vec![],
            globals: vec![],
            mems: vec![],
            exports: vec![],
            start: base.start,
            elems: base.elems.clone(),
            tables: base.tables.clone(),
            data: base
                .data
                .iter()
                .map(|d| MData {
                    mode: d.mode.clone(),
                    bytes: d.bytes.clone(),
                    tag: None,
                    added: false,
                })
                .collect(),
            customs: base.customs.iter().map(|c| (c.name.clone(), c.data.clone())).collect(),
            local_names: base.names.locals.clone(),
            type_requests: vec![],
            local_requests: vec![],
            accepted_probes: vec![],
            probe_bodies: Default::default(),
        };
        let fname = |i: u32| base.names.funcs.iter().find(|(k, _)| *k == i).map(|(_, n)| n.clone());
        let gname = |i: u32| base.names.globals.iter().find(|(k, _)| *k == i).map(|(_, n)| n.clone());
        for (k, i) in base.imports.iter().enumerate() {
            m.imports.push(MImport {
                spec: i.clone(),
                deleted: false,
                tag: None,
                added: false,
            });
            match &i.kind {
                ImpKind::Func(t) => {
                    let id = m.funcs.len() as u32;
                    m.funcs.push(MFunc {
                        kind: MFK::Import { imp: k as u32, ty: *t },
                        deleted: false,
                        name: fname(id),
                        name_known: true, rebodied: false,
                    })
                }
                ImpKind::Global { ty, mutable } => {
                    let id = m.globals.len() as u32;
                    m.globals.push(MGlobal {
                        kind: MGK::Import {
                            imp: k as u32,
                            ty: *ty,
                            mutable: *mutable,
                        },
                        deleted: false,
                        tag: None,
                        name: gname(id),
                        added: false,
                    })
                }
                ImpKind::Memory(t) => m.mems.push(MMem {
                    imp: Some(k as u32),
                    ty: *t,
                    deleted: false,
                    tag: None,
                    added: false,
                }),
                _ => {}
            }
        }
        for f in &base.funcs {
            let id = m.funcs.len() as u32;
            let (params, results) = base.func_sig(f.ty).expect("harness: base func type");
            m.funcs.push(MFunc {
                kind: MFK::Local(Box::new(MLocal {
                    magic: func_magic_of(&f.body).unwrap_or(-1),
                    params,
                    results,
                    base_locals: expand(&f.locals),
                    added_locals: vec![],
                    body: f.body.iter().cloned().map(MInstr::new).collect(),
                    entry: Default::default(),
                    exit: Default::default(),
                    built: false,
                    tag: None,
                })),
                deleted: false,
                name: fname(id),
                name_known: true, rebodied: false,
            });
        }
        for g in &base.globals {
            let id = m.globals.len() as u32;
            m.globals.push(MGlobal {
                kind: MGK::Local {
                    ty: g.ty,
                    mutable: g.mutable,
                    init: g.init.clone(),
                    fp: global_fp(g.ty, g.mutable, &g.init),
                },
                deleted: false,
                tag: None,
                name: gname(id),
                added: false,
            });
        }
        for t in &base.memories {
            m.mems.push(MMem {
                imp: None,
                ty: *t,
                deleted: false,
                tag: None,
                added: false,
            });
        }
        for e in &base.exports {
            m.exports.push(MExport {
                name: e.name.clone(),
                kind: e.kind,
                index: e.index,
                deleted: false,
                tag: None,
                added: false,
            });
        }
        m
    }

    pub fn func_fp(&self, id: u32) -> Option<Fp> {
        let f = self.funcs.get(id as usize)?;
        if f.deleted {
            return None;
        }
        Some(match &f.kind {
            MFK::Import { imp, .. } => {
                let s = &self.imports[*imp as usize].spec;
                Fp::Imp(s.module.clone(), s.name.clone())
            }
            MFK::Local(l) => Fp::Magic(l.magic),
        })
    }
    pub fn global_fp(&self, id: u32) -> Option<Fp> {
        let g = self.globals.get(id as usize)?;
        if g.deleted {
            return None;
        }
        Some(match &g.kind {
            MGK::Import { imp, .. } => {
                let s = &self.imports[*imp as usize].spec;
                Fp::Imp(s.module.clone(), s.name.clone())
            }
            MGK::Local { fp, .. } => fp.clone(),
        })
    }
    pub fn mem_fp(&self, id: u32) -> Option<Fp> {
        let g = self.mems.get(id as usize)?;
        if g.deleted {
            return None;
        }
        Some(match g.imp {
            Some(imp) => {
                let s = &self.imports[imp as usize].spec;
                Fp::Imp(s.module.clone(), s.name.clone())
            }
            None => Fp::MemMin(g.ty.min),
        })
    }
    pub fn func_sig(&self, id: u32) -> Option<(Vec<VT>, Vec<VT>)> {
        match &self.funcs.get(id as usize)?.kind {
            MFK::Import { ty, .. } => match &self.types.get(*ty as usize)?.ty.comp {
                Comp::Func(p, r) => Some((p.clone(), r.clone())),
                _ => None,
            },
            MFK::Local(l) => Some((l.params.clone(), l.results.clone())),
        }
    }
    pub fn global_ty(&self, id: u32) -> Option<(VT, bool, bool)> {
        let g = self.globals.get(id as usize)?;
        Some(match &g.kind {
            MGK::Import { ty, mutable, .. } => (*ty, *mutable, true),
            MGK::Local { ty, mutable, .. } => (*ty, *mutable, false),
        })
    }
    pub fn alive_funcs(&self) -> Vec<u32> {
        (0..self.funcs.len() as u32).filter(|i| !self.funcs[*i as usize].deleted).collect()
    }
    pub fn alive_local_funcs(&self) -> Vec<u32> {
        self.alive_funcs()
            .into_iter()
            .filter(|i| matches!(self.funcs[*i as usize].kind, MFK::Local(_)))
            .collect()
    }
    pub fn alive_import_funcs(&self) -> Vec<u32> {
        self.alive_funcs()
            .into_iter()
            .filter(|i| matches!(self.funcs[*i as usize].kind, MFK::Import { .. }))
            .collect()
    }
    pub fn alive_globals(&self) -> Vec<u32> {
        (0..self.globals.len() as u32).filter(|i| !self.globals[*i as usize].deleted).collect()
    }
    pub fn alive_mems(&self) -> Vec<u32> {
        (0..self.mems.len() as u32).filter(|i| !self.mems[*i as usize].deleted).collect()
    }
    pub fn local(&self, id: u32) -> Option<&MLocal> {
        match &self.funcs.get(id as usize)?.kind {
            MFK::Local(l) if !self.funcs[id as usize].deleted => Some(l),
            _ => None,
        }
    }
    pub fn local_mut(&mut self, id: u32) -> Option<&mut MLocal> {
        let f = self.funcs.get_mut(id as usize)?;
        if f.deleted {
            return None;
        }
        match &mut f.kind {
            MFK::Local(l) => Some(l),
            _ => None,
        }
    }
    pub fn find_func_type(&self, p: &[VT], r: &[VT]) -> Vec<u32> {
        let want = SubT::func(p, r);
        (0..self.types.len() as u32).filter(|i| self.types[*i as usize].ty == want).collect()
    }

    /// Every function / global / memory ID referenced anywhere (sites), for dangling analysis.
    pub fn referenced(&self) -> (Vec<u32>, Vec<u32>, Vec<u32>) {
        let (mut f, mut g, mut m) = (vec![], vec![], vec![]);
        let mut scan = |i: &Ins| {
            if let Some((_, x)) = i.func_ref() {
                f.push(x)
            }
            if let Some((_, x)) = i.global_ref() {
                g.push(x)
            }
            if let Some((_, xs)) = i.mem_refs() {
                m.extend(xs)
            }
        };
        for func in self.funcs.iter().filter(|f| !f.deleted) {
            if let MFK::Local(l) = &func.kind {
                for ins in &l.entry.ins {
                    scan(ins)
                }
                for ins in &l.exit.ins {
                    scan(ins)
                }
                for mi in &l.body {
                    scan(&mi.ins);
                    for lst in [&mi.before, &mi.after, &mi.sem_after, &mi.block_entry, &mi.block_exit] {
                        for ins in &lst.ins {
                            scan(ins)
                        }
                    }
                    for lst in [&mi.alternate, &mi.block_alt].into_iter().flatten() {
                        for ins in &lst.ins {
                            scan(ins)
                        }
                    }
                }
            }
        }
        let mut ce = |c: &ConstE, f: &mut Vec<u32>, g: &mut Vec<u32>| {
            let mut leaf = |c: &ConstE| match c {
                ConstE::GlobalGet(x) => g.push(*x),
                ConstE::RefFunc(x) => f.push(*x),
                _ => {}
            };
            match c {
                ConstE::StructNew(_, fields) => fields.iter().for_each(&mut leaf),
                other => leaf(other),
            }
        };
        for gl in self.globals.iter().filter(|g| !g.deleted) {
            if let MGK::Local { init, .. } = &gl.kind {
                ce(init, &mut f, &mut g)
            }
        }
        for e in self.exports.iter().filter(|e| !e.deleted) {
            match e.kind {
                ExtKind::Func => f.push(e.index),
                ExtKind::Global => g.push(e.index),
                ExtKind::Memory => m.push(e.index),
                _ => {}
            }
        }
        if let Some(s) = self.start {
            f.push(s)
        }
        for e in &self.elems {
            if let ElemMode::Active { offset, .. } = &e.mode {
                ce(offset, &mut f, &mut g)
            }
            match &e.items {
                ElemItems::Funcs(v) => f.extend(v.iter().copied()),
                ElemItems::Exprs(v) => {
                    for c in v {
                        ce(c, &mut f, &mut g)
                    }
                }
            }
        }
        for t in &self.tables {
            if let Some(c) = &t.init {
                ce(c, &mut f, &mut g)
            }
        }
        for d in &self.data {
            if let DataMode::Active { mem, offset } = &d.mode {
                m.push(*mem);
                ce(offset, &mut f, &mut g)
            }
        }
        (f, g, m)
    }

    /// IDs that are referenced while deleted / out of range (dangling)
    pub fn dangling(&self) -> (Vec<u32>, Vec<u32>, Vec<u32>) {
        let (f, g, m) = self.referenced();
        let df = f.into_iter().filter(|x| self.funcs.get(*x as usize).map_or(true, |f| f.deleted)).collect();
        let dg = g.into_iter().filter(|x| self.globals.get(*x as usize).map_or(true, |f| f.deleted)).collect();
        let dm = m.into_iter().filter(|x| self.mems.get(*x as usize).map_or(true, |f| f.deleted)).collect();
        (df, dg, dm)
    }

    /// Is `op` applicable in the current state (all IDs in range, alive and of the right kind)?
    pub fn precond(&self, op: &Op) -> bool {
        let is_func_ty = |t: u32| matches!(self.types.get(t as usize).map(|t| &t.ty.comp), Some(Comp::Func(..)));
        match op {
            Op::AddImportFunc { ty, .. } => is_func_ty(*ty),
            Op::BuildFunc { .. } => true,
            Op::DeleteFunc { id } => self.funcs.get(*id as usize).map_or(false, |f| !f.deleted),
            Op::ConvertLocalToImport { id, ty, .. } => {
                self.local(*id).is_some()
                    && is_func_ty(*ty)
                    && self.func_sig(*id).map(|(p, r)| SubT::func(&p, &r)) == self.types.get(*ty as usize).map(|t| t.ty.clone())
            }
            Op::ReplaceImport { imp, params, results, .. } => match self.imports.get(*imp as usize) {
                Some(i) if !i.deleted => match i.spec.kind {
                    ImpKind::Func(t) => {
                        self.types.get(t as usize).map(|t| t.ty.clone()) == Some(SubT::func(params, results))
                            && self.func_of_import(*imp).is_some()
                    }
                    _ => false,
                },
                _ => false,
            },
            Op::SetFnName { id, via, .. } => self.funcs.get(*id as usize).map_or(false, |f| {
                !f.deleted
                    && match via {
                        0 => true,
                        1 => matches!(f.kind, MFK::Local(_)),
                        // still the import entry of the parsed module (not replaced and converted back)
                        _ => *id < self.base.num_imp_funcs() && matches!(f.kind, MFK::Import { imp, .. } if (imp as usize) < self.base.imports.len()),
                    }
            }),
            Op::ImportsSetName { imp, .. } => self.imports.get(*imp as usize).map_or(false, |i| {
                !i.deleted && matches!(i.spec.kind, ImpKind::Func(_)) && self.func_of_import(*imp).is_some()
            }),
            Op::AddGlobal { .. } | Op::AddImportedGlobal { .. } | Op::IterAddGlobal { .. } => true,
            Op::DeleteGlobal { id } => self.globals.get(*id as usize).map_or(false, |g| !g.deleted),
            Op::ModGlobalInit { id, .. } => self
                .globals
                .get(*id as usize)
                .map_or(false, |g| !g.deleted && matches!(g.kind, MGK::Local { .. })),
            Op::AddLocalMemory { .. } | Op::AddImportMemory { .. } => true,
            Op::DeleteMemory { id } => self.mems.get(*id as usize).map_or(false, |g| !g.deleted),
            Op::AddData { .. } => true,
            Op::AddExportFunc { id, .. } => self.funcs.get(*id as usize).map_or(false, |f| !f.deleted),
            Op::AddExportMem { id, .. } => self.mems.get(*id as usize).map_or(false, |f| !f.deleted),
            Op::DeleteExport { exp } => self.exports.get(*exp as usize).map_or(false, |e| !e.deleted),
            Op::AddType { with_params, .. } => match with_params {
                Some((Some(s), _, _)) => (*s as usize) < self.types.len(),
                _ => true,
            },
            Op::CustomAdd { .. } => true,
            Op::CustomDelete { id } | Op::CustomEdit { id, .. } => (*id as usize) < self.customs.len(),
            Op::AddLocal { func, .. } => self.local(*func).is_some(),
            Op::Inject { func, sites, .. } => match self.local(*func) {
                Some(l) => sites.iter().all(|s| (s.instr as usize) < l.body.len()),
                None => false,
            },
        }
    }

    pub fn func_of_import(&self, imp: u32) -> Option<u32> {
        (0..self.funcs.len() as u32)
            .find(|i| matches!(self.funcs[*i as usize].kind, MFK::Import { imp: k, .. } if k == imp))
    }

    fn new_local(
        params: &[VT],
        results: &[VT],
        locals: &[VT],
        body: &[Ins],
        magic: i64,
        tag: &Option<Vec<u8>>,
    ) -> MLocal {
        let mut b: Vec<MInstr> = body.iter().cloned().map(MInstr::new).collect();
        b.push(MInstr::new(Ins::End));
        MLocal {
            magic,
            params: params.to_vec(),
            results: results.to_vec(),
            base_locals: locals.to_vec(),
            added_locals: vec![],
            body: b,
            entry: Default::default(),
            exit: Default::default(),
            built: true,
            tag: Some(tag.clone().unwrap_or_default()),
        }
    }

    fn request_type(&mut self, want: SubT, tag: Option<Vec<u8>>) -> Returned {
        let existing: Vec<u32> =
            (0..self.types.len() as u32).filter(|i| self.types[*i as usize].ty == want).collect();
        if existing.is_empty() {
            let id = self.types.len() as u32;
            self.types.push(MType {
                ty: want.clone(),
                added: true,
                tag,
            });
            self.type_requests.push((want, id));
            Returned::TypeOneOf(vec![id])
        } else {
            // an identical type added earlier through the API must be returned again; among
            // pre-existing (base) duplicates any is acceptable
            let added: Vec<u32> = existing.iter().copied().filter(|i| self.types[*i as usize].added).collect();
            let ok = if let Some(first) = added.first() {
                vec![*first]
            } else {
                existing
            };
            self.type_requests.push((want, ok[0]));
            Returned::TypeOneOf(ok)
        }
    }

    /// Apply `op` (precondition must hold). Returns what the library call is expected to return.
    pub fn apply(&mut self, op: &Op) -> Returned {
        match op {
            Op::AddImportFunc { module, name, ty, tag } => {
                let imp = self.imports.len() as u32;
                self.imports.push(MImport {
                    spec: ImportSpec {
                        module: module.clone(),
                        name: name.clone(),
                        kind: ImpKind::Func(*ty),
                    },
                    deleted: false,
                    tag: Some(tag.clone().unwrap_or_default()),
                    added: true,
                });
                let id = self.funcs.len() as u32;
                self.funcs.push(MFunc {
                    kind: MFK::Import { imp, ty: *ty },
                    deleted: false,
                    name: None,
                    name_known: true, rebodied: false,
                });
                Returned::IdImp(id, imp)
            }
            Op::BuildFunc { params, results, locals, body, name, tag, magic } => {
                // registering the signature is a type request without supertypes
                let _ = self.request_type(SubT::func(params, results), Some(tag.clone().unwrap_or_default()));
                self.type_requests.pop();
                let id = self.funcs.len() as u32;
                self.funcs.push(MFunc {
                    kind: MFK::Local(Box::new(Self::new_local(params, results, locals, body, *magic, tag))),
                    deleted: false,
                    name: name.clone(),
                    name_known: true, rebodied: false,
                });
                Returned::Id(id)
            }
            Op::DeleteFunc { id } => {
                self.accepted_probes.retain(|p| p.0 != *id);
                self.funcs[*id as usize].deleted = true;
                if let MFK::Import { imp, .. } = self.funcs[*id as usize].kind {
                    self.imports[imp as usize].deleted = true;
                }
                Returned::None
            }
            Op::ConvertLocalToImport { id, module, name, ty, tag } => {
                let imp = self.imports.len() as u32;
                self.imports.push(MImport {
                    spec: ImportSpec {
                        module: module.clone(),
                        name: name.clone(),
                        kind: ImpKind::Func(*ty),
                    },
                    deleted: false,
                    tag: Some(tag.clone().unwrap_or_default()),
                    added: true,
                });
                self.accepted_probes.retain(|p| p.0 != *id);
                let f = &mut self.funcs[*id as usize];
                f.kind = MFK::Import { imp, ty: *ty };
                f.deleted = false;
                f.name_known = false;
                f.rebodied = true;
                Returned::Bool(true)
            }
            Op::ReplaceImport { imp, params, results, locals, body, tag, magic } => {
                let fid = self.func_of_import(*imp).unwrap();
                self.imports[*imp as usize].deleted = true;
                let f = &mut self.funcs[fid as usize];
                f.kind = MFK::Local(Box::new(Self::new_local(params, results, locals, body, *magic, tag)));
                f.deleted = false;
                f.name_known = false;
                f.rebodied = true;
                Returned::None
            }
            Op::SetFnName { id, name, .. } => {
                let f = &mut self.funcs[*id as usize];
                f.name = Some(name.clone());
                f.name_known = true;
                Returned::None
            }
            Op::ImportsSetName { imp, name } => {
                let fid = self.func_of_import(*imp).unwrap();
                let f = &mut self.funcs[fid as usize];
                f.name = Some(name.clone());
                f.name_known = true;
                Returned::None
            }
            Op::AddGlobal { init, ty, mutable, tag } => {
                let id = self.globals.len() as u32;
                self.globals.push(MGlobal {
                    kind: MGK::Local {
                        ty: *ty,
                        mutable: *mutable,
                        init: init.clone(),
                        fp: global_fp(*ty, *mutable, init),
                    },
                    deleted: false,
                    tag: Some(tag.clone().unwrap_or_default()),
                    name: None,
                    added: true,
                });
                Returned::Id(id)
            }
            Op::IterAddGlobal { init, ty, mutable } => {
                let id = self.globals.len() as u32;
                self.globals.push(MGlobal {
                    kind: MGK::Local {
                        ty: *ty,
                        mutable: *mutable,
                        init: init.clone(),
                        fp: global_fp(*ty, *mutable, init),
                    },
                    deleted: false,
                    tag: None,
                    name: None,
                    added: true,
                });
                Returned::Id(id)
            }
            Op::AddImportedGlobal { module, name, ty, mutable, tag } => {
                let imp = self.imports.len() as u32;
                self.imports.push(MImport {
                    spec: ImportSpec {
                        module: module.clone(),
                        name: name.clone(),
                        kind: ImpKind::Global {
                            ty: *ty,
                            mutable: *mutable,
                        },
                    },
                    deleted: false,
                    tag: Some(tag.clone().unwrap_or_default()),
                    added: true,
                });
                let id = self.globals.len() as u32;
                self.globals.push(MGlobal {
                    kind: MGK::Import {
                        imp,
                        ty: *ty,
                        mutable: *mutable,
                    },
                    deleted: false,
                    tag: Some(tag.clone().unwrap_or_default()),
                    name: None,
                    added: true,
                });
                Returned::IdImp(id, imp)
            }
            Op::DeleteGlobal { id } => {
                self.globals[*id as usize].deleted = true;
                if let MGK::Import { imp, .. } = self.globals[*id as usize].kind {
                    self.imports[imp as usize].deleted = true;
                }
                Returned::None
            }
            Op::ModGlobalInit { id, init } => {
                if let MGK::Local { init: i, fp, ty, mutable } = &mut self.globals[*id as usize].kind {
                    *i = init.clone();
                    *fp = global_fp(*ty, *mutable, init);
                }
                Returned::None
            }
            Op::AddLocalMemory { ty, tag } => {
                let id = self.mems.len() as u32;
                self.mems.push(MMem {
                    imp: None,
                    ty: *ty,
                    deleted: false,
                    tag: Some(tag.clone().unwrap_or_default()),
                    added: true,
                });
                Returned::Id(id)
            }
            Op::AddImportMemory { module, name, ty, tag } => {
                let imp = self.imports.len() as u32;
                self.imports.push(MImport {
                    spec: ImportSpec {
                        module: module.clone(),
                        name: name.clone(),
                        kind: ImpKind::Memory(*ty),
                    },
                    deleted: false,
                    tag: Some(tag.clone().unwrap_or_default()),
                    added: true,
                });
                let id = self.mems.len() as u32;
                self.mems.push(MMem {
                    imp: Some(imp),
                    ty: *ty,
                    deleted: false,
                    tag: Some(tag.clone().unwrap_or_default()),
                    added: true,
                });
                Returned::IdImp(id, imp)
            }
            Op::DeleteMemory { id } => {
                self.mems[*id as usize].deleted = true;
                if let Some(imp) = self.mems[*id as usize].imp {
                    self.imports[imp as usize].deleted = true;
                }
                Returned::None
            }
            Op::AddData { mode, bytes, tag } => {
                let id = self.data.len() as u32;
                self.data.push(MData {
                    mode: mode.clone(),
                    bytes: bytes.clone(),
                    tag: tag.clone(),
                    added: true,
                });
                Returned::Id(id)
            }
            Op::AddExportFunc { name, id, tag } => {
                self.exports.push(MExport {
                    name: name.clone(),
                    kind: ExtKind::Func,
                    index: *id,
                    deleted: false,
                    tag: tag.clone(),
                    added: true,
                });
                Returned::None
            }
            Op::AddExportMem { name, id, tag } => {
                self.exports.push(MExport {
                    name: name.clone(),
                    kind: ExtKind::Memory,
                    index: *id,
                    deleted: false,
                    tag: tag.clone(),
                    added: true,
                });
                Returned::None
            }
            Op::DeleteExport { exp } => {
                self.exports[*exp as usize].deleted = true;
                Returned::None
            }
            Op::AddType { req, with_params, tag } => {
                let (supertype, is_final, shared) = with_params.unwrap_or((None, true, false));
                let want = SubT {
                    is_final,
                    supertype,
                    shared,
                    comp: match req {
                        TypeReq::Func(p, r) => Comp::Func(p.clone(), r.clone()),
                        TypeReq::Struct(f) => Comp::Struct(f.clone()),
                        TypeReq::Array(t, m) => Comp::Array(*t, *m),
                    },
                };
                self.request_type(want, tag.clone())
            }
            Op::CustomAdd { name, data } => {
                let id = self.customs.len() as u32;
                self.customs.push((name.clone(), data.clone()));
                Returned::Id(id)
            }
            Op::CustomDelete { id } => {
                self.customs.remove(*id as usize);
                Returned::None
            }
            Op::CustomEdit { id, data } => {
                self.customs[*id as usize].1 = data.clone();
                Returned::None
            }
            Op::AddLocal { func, ty, .. } => {
                let f = *func;
                let l = self.local_mut(f).unwrap();
                let id = (l.params.len() + l.base_locals.len() + l.added_locals.len()) as u32;
                l.added_locals.push(*ty);
                self.local_requests.push((f, *ty, id));
                Returned::Id(id)
            }
            Op::Inject { func, api, sites } => {
                let f = *func;
                let mut accepted = vec![];
                let mut bodies = vec![];
                let mut cleared: Vec<(u32, Mode)> = vec![];
                {
                    let l = self.local_mut(f).unwrap();
                    for s in sites {
                        let mi = &mut l.body[s.instr as usize];
                        let blocky = mi.ins.is_block_style();
                        let branchy = mi.ins.is_branch();
                        let applicable = match s.mode {
                            Mode::SemanticAfter => blocky || branchy,
                            Mode::BlockEntry | Mode::BlockExit | Mode::BlockAlt | Mode::EmptyBlockAlt => blocky,
                            _ => true,
                        };
                        // Whether a non-applicable request is accepted is the library's call: the
                        // executor removes the sites that were rejected (panicked) before applying
                        // the op to the model, so whatever arrives here was accepted and must be
                        // reflected (C22).
                        let _ = applicable;
                        if s.clear {
                            match s.mode {
                                Mode::Before => mi.before = Default::default(),
                                Mode::After => mi.after = Default::default(),
                                Mode::Alternate => mi.alternate = None,
                                Mode::SemanticAfter => mi.sem_after = Default::default(),
                                Mode::BlockEntry => mi.block_entry = Default::default(),
                                Mode::BlockExit => mi.block_exit = Default::default(),
                                Mode::BlockAlt => mi.block_alt = None,
                                _ => {}
                            }
                            cleared.push((s.instr, s.mode));
                            continue;
                        }
                        let push = |lst: &mut ModeList| {
                            lst.ins.extend(s.body.iter().cloned());
                            if let Some(t) = &s.tag {
                                lst.tag.get_or_insert_with(Vec::new).extend(t.iter().copied());
                            }
                            if s.magic != 0 {
                                lst.magics.push((s.magic, *api));
                            }
                        };
                        match s.mode {
                            Mode::Before => push(&mut mi.before),
                            Mode::After => push(&mut mi.after),
                            Mode::Alternate => push(mi.alternate.get_or_insert_with(Default::default)),
                            Mode::EmptyAlternate => mi.alternate = Some(Default::default()),
                            Mode::SemanticAfter => push(&mut mi.sem_after),
                            Mode::BlockEntry => push(&mut mi.block_entry),
                            Mode::BlockExit => push(&mut mi.block_exit),
                            Mode::BlockAlt => push(mi.block_alt.get_or_insert_with(Default::default)),
                            Mode::EmptyBlockAlt => mi.block_alt = Some(Default::default()),
                            Mode::FuncEntry => push(&mut l.entry),
                            Mode::FuncExit => push(&mut l.exit),
                        }
                        accepted.push((f, s.magic, s.mode, *api, s.instr));
                        if s.magic != 0 {
                            bodies.push((s.magic, s.body.clone()));
                        }
                    }
                }
                // replay in order: an empty (block-)alternate replaces whatever replacement was
                // requested before it
                self.probe_bodies.extend(bodies);
                // (clears and injections of one op never touch the same list: the generator keeps them apart)
                for (i, m) in cleared {
                    self.accepted_probes.retain(|p| !(p.0 == f && p.4 == i && (p.2 == m || (m == Mode::Alternate && p.2 == Mode::EmptyAlternate) || (m == Mode::BlockAlt && p.2 == Mode::EmptyBlockAlt))));
                }
                for a in accepted {
                    let wiped = match a.2 {
                        Mode::EmptyAlternate => Some(Mode::Alternate),
                        Mode::EmptyBlockAlt => Some(Mode::BlockAlt),
                        _ => None,
                    };
                    if let Some(w) = wiped {
                        self.accepted_probes.retain(|p| !(p.0 == f && p.4 == a.4 && p.2 == w));
                    }
                    self.accepted_probes.push(a);
                }
                Returned::None
            }
        }
    }
}
