//! `ModuleSpec`: the simulator's own description of a core module, lowered to bytes with
//! wasm-encoder and validated with wasmparser before it is handed to the library.
use crate::ins::{encode_ins, Ins, VT};
use serde::{Deserialize, Serialize};

#[derive(Clone, Copy, Debug, PartialEq, Eq, Hash, Serialize, Deserialize)]
pub enum ST {
    I8,
    I16,
    Val(VT),
}
impl ST {
    pub fn enc(self) -> wasm_encoder::StorageType {
        match self {
            ST::I8 => wasm_encoder::StorageType::I8,
            ST::I16 => wasm_encoder::StorageType::I16,
            ST::Val(v) => wasm_encoder::StorageType::Val(v.enc()),
        }
    }
    pub fn data_type(self) -> wirm::DataType {
        match self {
            ST::I8 => wirm::DataType::I8,
            ST::I16 => wirm::DataType::I16,
            ST::Val(v) => v.data_type(),
        }
    }
}

#[derive(Clone, Debug, PartialEq, Eq, Hash, Serialize, Deserialize)]
pub enum Comp {
    Func(Vec<VT>, Vec<VT>),
    Struct(Vec<(ST, bool)>),
    Array(ST, bool),
}

#[derive(Clone, Debug, PartialEq, Eq, Hash, Serialize, Deserialize)]
pub struct SubT {
    pub is_final: bool,
    pub supertype: Option<u32>,
    pub shared: bool,
    pub comp: Comp,
}
impl SubT {
    pub fn func(p: &[VT], r: &[VT]) -> SubT {
        SubT {
            is_final: true,
            supertype: None,
            shared: false,
            comp: Comp::Func(p.to_vec(), r.to_vec()),
        }
    }
    pub fn enc(&self) -> wasm_encoder::SubType {
        let inner = match &self.comp {
            Comp::Func(p, r) => wasm_encoder::CompositeInnerType::Func(wasm_encoder::FuncType::new(
                p.iter().map(|v| v.enc()),
                r.iter().map(|v| v.enc()),
            )),
            Comp::Struct(f) => wasm_encoder::CompositeInnerType::Struct(wasm_encoder::StructType {
                fields: f
                    .iter()
                    .map(|(t, m)| wasm_encoder::FieldType {
                        element_type: t.enc(),
                        mutable: *m,
                    })
                    .collect(),
            }),
            Comp::Array(t, m) => {
                wasm_encoder::CompositeInnerType::Array(wasm_encoder::ArrayType(wasm_encoder::FieldType {
                    element_type: t.enc(),
                    mutable: *m,
                }))
            }
        };
        wasm_encoder::SubType {
            is_final: self.is_final,
            supertype_idx: self.supertype,
            composite_type: wasm_encoder::CompositeType {
                inner,
                shared: self.shared,
            },
        }
    }
}

#[derive(Clone, Debug, PartialEq, Eq, Serialize, Deserialize)]
pub struct RecGroupSpec {
    pub explicit: bool,
    pub types: Vec<SubT>,
}

#[derive(Clone, Copy, Debug, PartialEq, Eq, Hash, Serialize, Deserialize)]
pub struct MemT {
    pub min: u64,
    pub max: Option<u64>,
    pub shared: bool,
    pub memory64: bool,
    /// custom-page-sizes proposal: pages of one byte (`(pagesize 1)`), limits are then byte counts
    #[serde(default)]
    pub page1: bool,
}
impl MemT {
    pub fn enc(self) -> wasm_encoder::MemoryType {
        wasm_encoder::MemoryType {
            minimum: self.min,
            maximum: self.max,
            memory64: self.memory64,
            shared: self.shared,
            page_size_log2: if self.page1 { Some(0) } else { None },
        }
    }
    pub fn parser(self) -> wasmparser::MemoryType {
        wasmparser::MemoryType {
            memory64: self.memory64,
            shared: self.shared,
            initial: self.min,
            maximum: self.max,
            page_size_log2: if self.page1 { Some(0) } else { None },
        }
    }
    pub fn from_parser(m: &wasmparser::MemoryType) -> MemT {
        MemT {
            min: m.initial,
            max: m.maximum,
            shared: m.shared,
            memory64: m.memory64,
            page1: m.page_size_log2 == Some(0),
        }
    }
}

#[derive(Clone, Copy, Debug, PartialEq, Eq, Hash, Serialize, Deserialize)]
pub struct TableT {
    pub min: u64,
    pub max: Option<u64>,
    pub funcref: bool,
}
impl TableT {
    pub fn enc(self) -> wasm_encoder::TableType {
        wasm_encoder::TableType {
            element_type: if self.funcref {
                wasm_encoder::RefType::FUNCREF
            } else {
                wasm_encoder::RefType::EXTERNREF
            },
            table64: false,
            minimum: self.min,
            maximum: self.max,
            shared: false,
        }
    }
}

#[derive(Clone, Debug, PartialEq, Eq, Hash, Serialize, Deserialize)]
pub enum ImpKind {
    Func(u32),
    Global { ty: VT, mutable: bool },
    Memory(MemT),
    Table(TableT),
    Tag(u32),
}

#[derive(Clone, Debug, PartialEq, Eq, Hash, Serialize, Deserialize)]
pub struct ImportSpec {
    pub module: String,
    pub name: String,
    pub kind: ImpKind,
}

#[derive(Clone, Debug, PartialEq, Eq, Hash, Serialize, Deserialize)]
pub enum ConstE {
    I32(i32),
    I64(i64),
    F32(u32),
    F64(u64),
    V128(u128),
    GlobalGet(u32),
    RefFunc(u32),
    RefNull(bool),
    /// extended-const: a valid expression the IR cannot represent (C03 only)
    ExtAdd(i32, i32),
    /// `<field exprs> struct.new $t`: a GC aggregate whose initialiser holds several references
    StructNew(u32, Vec<ConstE>),
}
impl ConstE {
    pub fn enc(&self) -> wasm_encoder::ConstExpr {
        match self {
            ConstE::I32(v) => wasm_encoder::ConstExpr::i32_const(*v),
            ConstE::I64(v) => wasm_encoder::ConstExpr::i64_const(*v),
            ConstE::F32(v) => wasm_encoder::ConstExpr::f32_const(wasm_encoder::Ieee32::from(f32::from_bits(*v))),
            ConstE::F64(v) => wasm_encoder::ConstExpr::f64_const(wasm_encoder::Ieee64::from(f64::from_bits(*v))),
            ConstE::V128(v) => wasm_encoder::ConstExpr::v128_const(*v as i128),
            ConstE::GlobalGet(g) => wasm_encoder::ConstExpr::global_get(*g),
            ConstE::RefFunc(f) => wasm_encoder::ConstExpr::ref_func(*f),
            ConstE::RefNull(func) => wasm_encoder::ConstExpr::ref_null(if *func {
                wasm_encoder::HeapType::FUNC
            } else {
                wasm_encoder::HeapType::EXTERN
            }),
            ConstE::StructNew(t, fields) => {
                let mut bytes = vec![];
                for f in fields {
                    let ins = match f {
                        ConstE::I32(v) => Ins::I32Const(*v),
                        ConstE::I64(v) => Ins::I64Const(*v),
                        ConstE::GlobalGet(g) => Ins::GlobalGet(*g),
                        ConstE::RefFunc(x) => Ins::RefFunc(*x),
                        other => panic!("harness: struct field initialiser {:?}", other),
                    };
                    encode_ins(&[ins], &mut bytes);
                }
                // struct.new $t = 0xfb 0x00 typeidx
                bytes.extend_from_slice(&[0xfb, 0x00]);
                let mut v = *t;
                loop {
                    let b = (v & 0x7f) as u8;
                    v >>= 7;
                    if v == 0 {
                        bytes.push(b);
                        break;
                    }
                    bytes.push(b | 0x80);
                }
                wasm_encoder::ConstExpr::raw(bytes)
            }
            ConstE::ExtAdd(a, b) => {
                let mut bytes = vec![];
                encode_ins(
                    &[
                        Ins::I32Const(*a),
                        Ins::I32Const(*b),
                        Ins::S(crate::ins::Simple::I32Add),
                    ],
                    &mut bytes,
                );
                wasm_encoder::ConstExpr::raw(bytes)
            }
        }
    }
    pub fn to_init(&self) -> wirm::ir::types::InitExpr {
        use wirm::ir::types::{InitExpr, InitInstr, Value};
        use wirm::ir::id::{FunctionID, GlobalID};
        let i = match self {
            ConstE::I32(v) => InitInstr::Value(Value::I32(*v)),
            ConstE::I64(v) => InitInstr::Value(Value::I64(*v)),
            ConstE::F32(v) => InitInstr::Value(Value::F32(f32::from_bits(*v))),
            ConstE::F64(v) => InitInstr::Value(Value::F64(f64::from_bits(*v))),
            ConstE::V128(v) => InitInstr::Value(Value::V128(*v)),
            ConstE::GlobalGet(g) => InitInstr::Global(GlobalID(*g)),
            ConstE::RefFunc(f) => InitInstr::RefFunc(FunctionID(*f)),
            ConstE::RefNull(func) => InitInstr::RefNull(if *func {
                wasmparser::RefType::FUNCREF
            } else {
                wasmparser::RefType::EXTERNREF
            }),
            ConstE::ExtAdd(..) => panic!("harness: ExtAdd has no InitExpr form"),
            ConstE::StructNew(t, fields) => {
                let mut v: Vec<InitInstr> = vec![];
                for f in fields {
                    v.extend(f.to_init().exprs);
                }
                v.push(InitInstr::StructNew(wirm::ir::id::TypeID(*t)));
                return InitExpr::new(v);
            }
        };
        InitExpr::new(vec![i])
    }
    /// Decode a wasmparser const expr into ConstE (single instruction forms only)
    pub fn from_parser(e: &wasmparser::ConstExpr) -> Result<ConstE, String> {
        let mut r = e.get_operators_reader();
        let mut ops = vec![];
        while !r.eof() {
            ops.push(r.read().map_err(|e| e.to_string())?);
        }
        use wasmparser::Operator as O;
        match ops.as_slice() {
            [O::I32Const { value }, O::End] => Ok(ConstE::I32(*value)),
            [O::I64Const { value }, O::End] => Ok(ConstE::I64(*value)),
            [O::F32Const { value }, O::End] => Ok(ConstE::F32(value.bits())),
            [O::F64Const { value }, O::End] => Ok(ConstE::F64(value.bits())),
            [O::V128Const { value }, O::End] => Ok(ConstE::V128(value.i128() as u128)),
            [O::GlobalGet { global_index }, O::End] => Ok(ConstE::GlobalGet(*global_index)),
            [O::RefFunc { function_index }, O::End] => Ok(ConstE::RefFunc(*function_index)),
            [O::RefNull { hty }, O::End] => match hty {
                wasmparser::HeapType::Abstract {
                    ty: wasmparser::AbstractHeapType::Func,
                    ..
                } => Ok(ConstE::RefNull(true)),
                wasmparser::HeapType::Abstract {
                    ty: wasmparser::AbstractHeapType::Extern,
                    ..
                } => Ok(ConstE::RefNull(false)),
                _ => Err(format!("refnull {:?}", hty)),
            },
            [fields @ .., O::StructNew { struct_type_index }, O::End] => {
                let mut v = vec![];
                for f in fields {
                    v.push(match f {
                        O::I32Const { value } => ConstE::I32(*value),
                        O::I64Const { value } => ConstE::I64(*value),
                        O::GlobalGet { global_index } => ConstE::GlobalGet(*global_index),
                        O::RefFunc { function_index } => ConstE::RefFunc(*function_index),
                        other => return Err(format!("struct field {:?}", other)),
                    });
                }
                Ok(ConstE::StructNew(*struct_type_index, v))
            }
            other => Err(format!("{:?}", other)),
        }
    }
}

#[derive(Clone, Debug, PartialEq, Eq, Serialize, Deserialize)]
pub struct FuncSpec {
    pub ty: u32,
    pub locals: Vec<(u32, VT)>,
    /// includes the final `End`
    pub body: Vec<Ins>,
}

#[derive(Clone, Debug, PartialEq, Eq, Serialize, Deserialize)]
pub struct GlobalSpec {
    pub ty: VT,
    pub mutable: bool,
    pub init: ConstE,
}

#[derive(Clone, Debug, PartialEq, Eq, Serialize, Deserialize)]
pub struct TableSpec {
    pub ty: TableT,
    pub init: Option<ConstE>,
}

#[derive(Clone, Debug, PartialEq, Eq, Serialize, Deserialize)]
pub enum DataMode {
    Passive,
    Active { mem: u32, offset: ConstE },
}
#[derive(Clone, Debug, PartialEq, Eq, Serialize, Deserialize)]
pub struct DataSpec {
    pub mode: DataMode,
    pub bytes: Vec<u8>,
}

#[derive(Clone, Debug, PartialEq, Eq, Serialize, Deserialize)]
pub enum ElemMode {
    Passive,
    Declared,
    Active { table: Option<u32>, offset: ConstE },
}
#[derive(Clone, Debug, PartialEq, Eq, Serialize, Deserialize)]
pub enum ElemItems {
    Funcs(Vec<u32>),
    Exprs(Vec<ConstE>),
}
#[derive(Clone, Debug, PartialEq, Eq, Serialize, Deserialize)]
pub struct ElemSpec {
    pub mode: ElemMode,
    pub items: ElemItems,
    /// element type of an expression segment when it is a concrete typed function reference
    /// `(ref null? $t)` instead of `funcref`: (type index, nullable)
    #[serde(default)]
    pub ty: Option<(u32, bool)>,
}

#[derive(Clone, Copy, Debug, PartialEq, Eq, Hash, Serialize, Deserialize)]
pub enum ExtKind {
    Func,
    Table,
    Memory,
    Global,
    Tag,
}
impl ExtKind {
    pub fn enc(self) -> wasm_encoder::ExportKind {
        match self {
            ExtKind::Func => wasm_encoder::ExportKind::Func,
            ExtKind::Table => wasm_encoder::ExportKind::Table,
            ExtKind::Memory => wasm_encoder::ExportKind::Memory,
            ExtKind::Global => wasm_encoder::ExportKind::Global,
            ExtKind::Tag => wasm_encoder::ExportKind::Tag,
        }
    }
    pub fn from_parser(k: wasmparser::ExternalKind) -> ExtKind {
        match k {
            wasmparser::ExternalKind::Func => ExtKind::Func,
            wasmparser::ExternalKind::Table => ExtKind::Table,
            wasmparser::ExternalKind::Memory => ExtKind::Memory,
            wasmparser::ExternalKind::Global => ExtKind::Global,
            wasmparser::ExternalKind::Tag => ExtKind::Tag,
        }
    }
}

#[derive(Clone, Debug, PartialEq, Eq, Serialize, Deserialize)]
pub struct ExportSpec {
    pub name: String,
    pub kind: ExtKind,
    pub index: u32,
}

#[derive(Clone, Debug, Default, PartialEq, Eq, Serialize, Deserialize)]
pub struct NameSpec {
    pub module: Option<String>,
    pub funcs: Vec<(u32, String)>,
    pub locals: Vec<(u32, Vec<(u32, String)>)>,
    pub globals: Vec<(u32, String)>,
    pub memories: Vec<(u32, String)>,
    pub tables: Vec<(u32, String)>,
    pub types: Vec<(u32, String)>,
    pub data: Vec<(u32, String)>,
    pub elems: Vec<(u32, String)>,
}
impl NameSpec {
    pub fn is_empty(&self) -> bool {
        *self == NameSpec::default()
    }
}

#[derive(Clone, Debug, PartialEq, Eq, Serialize, Deserialize)]
pub struct CustomSpec {
    pub name: String,
    pub data: Vec<u8>,
    /// emitted before the standard section with this ordinal (0=type .. 12=data), 13 = at end
    pub place: u8,
}

#[derive(Clone, Debug, Default, PartialEq, Eq, Serialize, Deserialize)]
pub struct ModuleSpec {
    pub types: Vec<RecGroupSpec>,
    pub imports: Vec<ImportSpec>,
    pub funcs: Vec<FuncSpec>,
    pub tables: Vec<TableSpec>,
    pub memories: Vec<MemT>,
    pub tags: Vec<u32>,
    pub globals: Vec<GlobalSpec>,
    pub exports: Vec<ExportSpec>,
    pub start: Option<u32>,
    pub elems: Vec<ElemSpec>,
    pub data: Vec<DataSpec>,
    pub data_count: bool,
    pub names: NameSpec,
    pub customs: Vec<CustomSpec>,
}

impl ModuleSpec {
    pub fn flat_types(&self) -> Vec<&SubT> {
        self.types.iter().flat_map(|g| g.types.iter()).collect()
    }
    pub fn func_sig(&self, ty: u32) -> Option<(Vec<VT>, Vec<VT>)> {
        match self.flat_types().get(ty as usize).map(|t| &t.comp) {
            Some(Comp::Func(p, r)) => Some((p.clone(), r.clone())),
            _ => None,
        }
    }
    pub fn num_imp_funcs(&self) -> u32 {
        self.imports.iter().filter(|i| matches!(i.kind, ImpKind::Func(_))).count() as u32
    }
    pub fn num_imp_globals(&self) -> u32 {
        self.imports.iter().filter(|i| matches!(i.kind, ImpKind::Global { .. })).count() as u32
    }
    pub fn num_imp_mems(&self) -> u32 {
        self.imports.iter().filter(|i| matches!(i.kind, ImpKind::Memory(_))).count() as u32
    }
    pub fn num_imp_tables(&self) -> u32 {
        self.imports.iter().filter(|i| matches!(i.kind, ImpKind::Table(_))).count() as u32
    }
    pub fn num_funcs(&self) -> u32 {
        self.num_imp_funcs() + self.funcs.len() as u32
    }
    pub fn num_globals(&self) -> u32 {
        self.num_imp_globals() + self.globals.len() as u32
    }
    pub fn num_mems(&self) -> u32 {
        self.num_imp_mems() + self.memories.len() as u32
    }
    /// type index of function `f` of the function index space
    pub fn func_type_of(&self, f: u32) -> Option<u32> {
        let mut k = 0;
        for i in &self.imports {
            if let ImpKind::Func(t) = i.kind {
                if k == f {
                    return Some(t);
                }
                k += 1;
            }
        }
        self.funcs.get((f - k) as usize).map(|x| x.ty)
    }
    pub fn global_type_of(&self, g: u32) -> Option<(VT, bool, bool)> {
        // (type, mutable, is_import)
        let mut k = 0;
        for i in &self.imports {
            if let ImpKind::Global { ty, mutable } = i.kind {
                if k == g {
                    return Some((ty, mutable, true));
                }
                k += 1;
            }
        }
        self.globals.get((g - k) as usize).map(|x| (x.ty, x.mutable, false))
    }
    pub fn mem_type_of(&self, m: u32) -> Option<MemT> {
        let mut k = 0;
        for i in &self.imports {
            if let ImpKind::Memory(t) = i.kind {
                if k == m {
                    return Some(t);
                }
                k += 1;
            }
        }
        self.memories.get((m - k) as usize).copied()
    }

    pub fn to_bytes(&self) -> Vec<u8> {
        let mut m = wasm_encoder::Module::new();
        let customs_at = |m: &mut wasm_encoder::Module, ord: u8| {
            for c in self.customs.iter().filter(|c| c.place == ord) {
                m.section(&wasm_encoder::CustomSection {
                    name: std::borrow::Cow::Borrowed(&c.name),
                    data: std::borrow::Cow::Borrowed(&c.data),
                });
            }
        };
        customs_at(&mut m, 0);
        if !self.types.is_empty() {
            let mut s = wasm_encoder::TypeSection::new();
            for g in &self.types {
                if g.explicit {
                    s.ty().rec(g.types.iter().map(|t| t.enc()));
                } else {
                    for t in &g.types {
                        s.ty().subtype(&t.enc());
                    }
                }
            }
            m.section(&s);
        }
        customs_at(&mut m, 1);
        if !self.imports.is_empty() {
            let mut s = wasm_encoder::ImportSection::new();
            for i in &self.imports {
                let ty: wasm_encoder::EntityType = match &i.kind {
                    ImpKind::Func(t) => wasm_encoder::EntityType::Function(*t),
                    ImpKind::Global { ty, mutable } => {
                        wasm_encoder::EntityType::Global(wasm_encoder::GlobalType {
                            val_type: ty.enc(),
                            mutable: *mutable,
                            shared: false,
                        })
                    }
                    ImpKind::Memory(t) => wasm_encoder::EntityType::Memory(t.enc()),
                    ImpKind::Table(t) => wasm_encoder::EntityType::Table(t.enc()),
                    ImpKind::Tag(t) => wasm_encoder::EntityType::Tag(wasm_encoder::TagType {
                        kind: wasm_encoder::TagKind::Exception,
                        func_type_idx: *t,
                    }),
                };
                s.import(&i.module, &i.name, ty);
            }
            m.section(&s);
        }
        customs_at(&mut m, 2);
        if !self.funcs.is_empty() {
            let mut s = wasm_encoder::FunctionSection::new();
            for f in &self.funcs {
                s.function(f.ty);
            }
            m.section(&s);
        }
        customs_at(&mut m, 3);
        if !self.tables.is_empty() {
            let mut s = wasm_encoder::TableSection::new();
            for t in &self.tables {
                match &t.init {
                    None => s.table(t.ty.enc()),
                    Some(e) => s.table_with_init(t.ty.enc(), &e.enc()),
                };
            }
            m.section(&s);
        }
        customs_at(&mut m, 4);
        if !self.memories.is_empty() {
            let mut s = wasm_encoder::MemorySection::new();
            for t in &self.memories {
                s.memory(t.enc());
            }
            m.section(&s);
        }
        customs_at(&mut m, 5);
        if !self.tags.is_empty() {
            let mut s = wasm_encoder::TagSection::new();
            for t in &self.tags {
                s.tag(wasm_encoder::TagType {
                    kind: wasm_encoder::TagKind::Exception,
                    func_type_idx: *t,
                });
            }
            m.section(&s);
        }
        customs_at(&mut m, 6);
        if !self.globals.is_empty() {
            let mut s = wasm_encoder::GlobalSection::new();
            for g in &self.globals {
                s.global(
                    wasm_encoder::GlobalType {
                        val_type: g.ty.enc(),
                        mutable: g.mutable,
                        shared: false,
                    },
                    &g.init.enc(),
                );
            }
            m.section(&s);
        }
        customs_at(&mut m, 7);
        if !self.exports.is_empty() {
            let mut s = wasm_encoder::ExportSection::new();
            for e in &self.exports {
                s.export(&e.name, e.kind.enc(), e.index);
            }
            m.section(&s);
        }
        customs_at(&mut m, 8);
        if let Some(f) = self.start {
            m.section(&wasm_encoder::StartSection { function_index: f });
        }
        customs_at(&mut m, 9);
        if !self.elems.is_empty() {
            let mut s = wasm_encoder::ElementSection::new();
            for e in &self.elems {
                let exprs: Vec<wasm_encoder::ConstExpr>;
                let items = match &e.items {
                    ElemItems::Funcs(f) => wasm_encoder::Elements::Functions(std::borrow::Cow::Borrowed(f)),
                    ElemItems::Exprs(x) => {
                        exprs = x.iter().map(|c| c.enc()).collect();
                        wasm_encoder::Elements::Expressions(
                            match e.ty {
                                Some((t, nullable)) => wasm_encoder::RefType { nullable, heap_type: wasm_encoder::HeapType::Concrete(t) },
                                None => wasm_encoder::RefType::FUNCREF,
                            },
                            std::borrow::Cow::Borrowed(&exprs),
                        )
                    }
                };
                match &e.mode {
                    ElemMode::Passive => s.passive(items),
                    ElemMode::Declared => s.declared(items),
                    ElemMode::Active { table, offset } => s.active(*table, &offset.enc(), items),
                };
            }
            m.section(&s);
        }
        customs_at(&mut m, 10);
        if self.data_count {
            m.section(&wasm_encoder::DataCountSection {
                count: self.data.len() as u32,
            });
        }
        customs_at(&mut m, 11);
        if !self.funcs.is_empty() {
            let mut s = wasm_encoder::CodeSection::new();
            for f in &self.funcs {
                let mut func =
                    wasm_encoder::Function::new(f.locals.iter().map(|(n, t)| (*n, t.enc())));
                for i in &f.body {
                    func.instruction(&i.enc());
                }
                s.function(&func);
            }
            m.section(&s);
        }
        customs_at(&mut m, 12);
        if !self.data.is_empty() {
            let mut s = wasm_encoder::DataSection::new();
            for d in &self.data {
                match &d.mode {
                    DataMode::Passive => s.passive(d.bytes.iter().copied()),
                    DataMode::Active { mem, offset } => {
                        s.active(*mem, &offset.enc(), d.bytes.iter().copied())
                    }
                };
            }
            m.section(&s);
        }
        if !self.names.is_empty() {
            let mut n = wasm_encoder::NameSection::new();
            let nm = |v: &Vec<(u32, String)>| {
                let mut m = wasm_encoder::NameMap::new();
                for (i, s) in v {
                    m.append(*i, s);
                }
                m
            };
            if let Some(x) = &self.names.module {
                n.module(x);
            }
            if !self.names.funcs.is_empty() {
                n.functions(&nm(&self.names.funcs));
            }
            if !self.names.locals.is_empty() {
                let mut im = wasm_encoder::IndirectNameMap::new();
                for (f, v) in &self.names.locals {
                    im.append(*f, &nm(v));
                }
                n.locals(&im);
            }
            if !self.names.types.is_empty() {
                n.types(&nm(&self.names.types));
            }
            if !self.names.tables.is_empty() {
                n.tables(&nm(&self.names.tables));
            }
            if !self.names.memories.is_empty() {
                n.memories(&nm(&self.names.memories));
            }
            if !self.names.globals.is_empty() {
                n.globals(&nm(&self.names.globals));
            }
            if !self.names.elems.is_empty() {
                n.elements(&nm(&self.names.elems));
            }
            if !self.names.data.is_empty() {
                n.data(&nm(&self.names.data));
            }
            m.section(&n);
        }
        customs_at(&mut m, 13);
        m.finish()
    }
}

pub fn features() -> wasmparser::WasmFeatures {
    use wasmparser::WasmFeatures as F;
    F::default()
        | F::THREADS
        | F::MEMORY64
        | F::MULTI_MEMORY
        | F::TAIL_CALL
        | F::GC
        | F::FUNCTION_REFERENCES
        | F::EXCEPTIONS
        | F::EXTENDED_CONST
        | F::SIMD
        | F::BULK_MEMORY
        | F::REFERENCE_TYPES
        | F::MULTI_VALUE
        | F::SHARED_EVERYTHING_THREADS
        | F::CUSTOM_PAGE_SIZES
}

pub fn validate(bytes: &[u8]) -> Result<(), String> {
    let mut v = wasmparser::Validator::new_with_features(features());
    v.validate_all(bytes).map(|_| ()).map_err(|e| e.to_string())
}
