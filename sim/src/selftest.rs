//! Checks of the simulator itself, run by `setup_cmd`: the lowering/decoding pair is the identity
//! on generated modules, generated base modules validate, the library accepts them, and the
//! reference model agrees with the library on histories without edits.
use crate::checks::*;
use crate::decode::decode;
use crate::gen::*;
use crate::rng::{mix, Rng};
use crate::spec::*;

pub fn selftest_cmd(seed: u64) -> i32 {
    crate::exec::install_logger();
    let profiles = vec![
        func_edit_profile(),
        global_edit_profile(),
        memory_edit_profile(),
        types_profile(),
        custom_profile(),
        names_profile(),
        mixed_profile(),
        additions_profile(),
    ];
    let mut n = 0;
    for (pi, p) in profiles.iter().enumerate() {
        for k in 0..400u64 {
            let mut rng = Rng::new(mix(mix(seed, 0x5E1F), pi as u64 * 1000 + k));
            let mut st = GenState::new();
            let base = gen_base(&mut rng, p, &mut st);
            let bytes = base.to_bytes();
            if let Err(e) = validate(&bytes) {
                eprintln!("selftest: profile {} module {k} does not validate: {e}", p.name);
                return 2;
            }
            let back = match decode(&bytes) {
                Ok(b) => b,
                Err(e) => {
                    eprintln!("selftest: profile {} module {k} does not decode: {e}", p.name);
                    return 2;
                }
            };
            // customs: `place` is normalised by the decoder to "before the next standard section"
            let mut a = base.clone();
            let mut b = back.clone();
            for c in a.customs.iter_mut() {
                c.place = 0;
            }
            for c in b.customs.iter_mut() {
                c.place = 0;
            }
            if a != b {
                eprintln!("selftest: lower/decode round trip differs for profile {} module {k}", p.name);
                eprintln!("spec:    {:?}", a);
                eprintln!("decoded: {:?}", b);
                return 2;
            }
            // an unedited history: the structural oracle must find nothing at all (any kind)
            let sc = crate::exec::Scenario {
                property: "selftest".into(),
                profile: p.name.into(),
                seed: k,
                hash_seed: k,
                multi_memory: p.multi_memory,
                base: base.clone(),
                clients: vec![],
                schedule: vec![],
                scheduler: "none".into(),
                tail: vec![crate::exec::Tail::Encode],
                exec: None,
                info: None,
                walk: None,
                comp: None,
                xproc: 0,
            };
            let res = crate::exec::run(&sc);
            if let Some(e) = &res.parse_err {
                eprintln!("selftest: library refused generated module (profile {} module {k}): {e}", p.name);
                return 2;
            }
            if let Some(out) = crate::oracle::first_bytes(&res) {
                match crate::oracle::check_output(&res.model, out) {
                    Ok(mm) if mm.is_empty() => {}
                    Ok(mm) => {
                        eprintln!("selftest: unedited module reported mismatches (profile {} module {k}): {:?}", p.name, &mm[..mm.len().min(3)]);
                        return 2;
                    }
                    Err(e) => {
                        eprintln!("selftest: oracle error: {e}");
                        return 2;
                    }
                }
            } else {
                eprintln!("selftest: encoding an unedited module failed (profile {} module {k}): {:?}", p.name, crate::oracle::panic_of(&res));
                return 2;
            }
            n += 1;
        }
    }
    if let Err(e) = crate::interp::selftest() {
        eprintln!("selftest: interpreter: {e}");
        return 2;
    }
    eprintln!("selftest ok: {n} generated modules round-tripped, validated, accepted and matched unedited");
    0
}
