//! Executed checks C16-C20: original and instrumented module run on the simulated host; the
//! oracles are phrased over host-call traces (never over how the library lowered a mode).
use crate::checks::Judged;
use crate::decode::decode;
use crate::exec::{run, RunResult, Scenario, Tail};
use crate::gen::GenState;
use crate::ins::Ins;
use crate::interp::*;
use crate::model::*;
use crate::oracle::{first_bytes, Mismatch};
use crate::progen::*;
use crate::rng::Rng;
use crate::spec::*;

pub struct ExecProfile {
    pub name: &'static str,
    pub modes: Vec<Mode>,
    /// unrelated index-shifting edits by other clients
    pub edits: bool,
    pub rich: bool,
}

pub fn exec_profile(id: &str) -> ExecProfile {
    match id {
        "C16" => ExecProfile {
            name: "exec-all-modes",
            modes: vec![
                Mode::Before,
                Mode::After,
                Mode::Alternate,
                Mode::SemanticAfter,
                Mode::BlockEntry,
                Mode::BlockExit,
                Mode::FuncEntry,
                Mode::FuncExit,
                Mode::Before,
                Mode::After,
            ],
            edits: true,
            rich: true,
        },
        "C17" => ExecProfile {
            name: "exec-func-entry-exit",
            modes: vec![Mode::FuncEntry, Mode::FuncExit, Mode::FuncExit, Mode::FuncEntry, Mode::FuncExit, Mode::Before, Mode::BlockExit, Mode::SemanticAfter, Mode::BlockEntry],
            edits: false,
            rich: true,
        },
        "C18" => ExecProfile {
            name: "exec-block-entry",
            modes: vec![Mode::BlockEntry, Mode::BlockEntry, Mode::BlockEntry, Mode::BlockEntry, Mode::Before, Mode::After, Mode::After, Mode::BlockExit, Mode::SemanticAfter, Mode::FuncEntry],
            edits: false,
            rich: true,
        },
        "C19" => ExecProfile {
            name: "exec-block-exit",
            modes: vec![Mode::BlockExit, Mode::BlockExit, Mode::BlockExit, Mode::BlockExit, Mode::After, Mode::BlockEntry, Mode::SemanticAfter, Mode::FuncExit],
            edits: false,
            rich: true,
        },
        _ => ExecProfile {
            name: "exec-semantic-after",
            modes: vec![Mode::SemanticAfter, Mode::SemanticAfter, Mode::SemanticAfter, Mode::SemanticAfter, Mode::SemanticAfter, Mode::Before, Mode::BlockExit, Mode::BlockEntry, Mode::FuncExit],
            edits: false,
            rich: true,
        },
    }
}

fn probe_body(magic: i32) -> Vec<Ins> {
    vec![Ins::I32Const(magic), Ins::Call(F_PROBE)]
}

/// instruction indices of function `fi` that may carry `mode`
fn candidates(info: &FuncInfo, body: &[Ins], mode: Mode) -> Vec<u32> {
    match mode {
        Mode::Alternate => info.plains.iter().map(|p| p.idx).collect(),
        Mode::Before | Mode::After => {
            // plain instructions (judged by their anchors and by virtual events) and, judged by virtual
            // events only, branches and explicit exits: before = about to execute, after = completed
            // without branching away (never, for br / br_table / unreachable / throw)
            let mut v: Vec<u32> = info.plains.iter().map(|p| p.idx).collect();
            v.extend(info.plains.iter().map(|p| p.idx));
            v.extend(info.branches.iter().map(|b| b.idx));
            v.extend(info.unreachables.iter().map(|u| u.0));
            v.extend(info.caught_throws.iter().map(|u| u.0));
            // construct openers: before = about to execute the opener; after-code of a `block` / `if` opener
            // sits at the start of the body / then-arm (a `loop` opener's would run on every iteration and
            // is left out)
            v.extend(info.constructs.iter().filter(|c| mode == Mode::Before || c.kind != CK::Loop).map(|c| c.opener));
            v
        }
        Mode::BlockEntry | Mode::BlockExit => {
            let mut v: Vec<u32> = info.constructs.iter().map(|c| c.opener).collect();
            v.extend(info.constructs.iter().filter_map(|c| c.else_idx));
            v
        }
        Mode::SemanticAfter => {
            let mut v: Vec<u32> = info.constructs.iter().filter(|c| c.kind != CK::Loop).map(|c| c.opener).collect();
            v.extend(info.constructs.iter().filter_map(|c| c.else_idx));
            v.extend(info.branches.iter().filter(|b| !b.targets_loop).map(|b| b.idx));
            v
        }
        Mode::FuncEntry | Mode::FuncExit => {
            let _ = body;
            vec![0]
        }
        _ => vec![],
    }
}

pub fn gen_exec_scenario(id: &str, run_seed: u64) -> Result<Scenario, String> {
    let p = exec_profile(id);
    let mut rng = Rng::new(run_seed);
    let (base, info) = gen_program(&mut rng, p.rich);
    let bytes = base.to_bytes();
    validate(&bytes).map_err(|e| format!("generated program does not validate: {e}"))?;
    let mut st = GenState::new();
    st.next_func_magic = FUNC_MAGIC_BASE + 100;
    let n_clients = rng.range(1, 3);
    let mut clients: Vec<Vec<Op>> = vec![vec![]; n_clients];
    let mut schedule = vec![];
    let n_ops = rng.range(1, 6);
    let n_funcs = base.funcs.len();
    let mut used: Vec<(usize, u32)> = vec![];
    let mut shared_pool: Vec<(usize, Mode, u32, i32)> = vec![];
    let mut added_probe_imports: Vec<u32> = vec![];
    let mut n_added_funcs = 0u32;
    // one history in four first replaces the host import `helper` by a built body with the same
    // behaviour; later sites may then instrument that function too (only behaviour is judged there)
    let helper_replaced = rng.chance(1, 4);
    if helper_replaced {
        clients[0].push(Op::ReplaceImport {
            imp: F_HELPER,
            params: vec![crate::ins::VT::I32, crate::ins::VT::I32],
            results: vec![crate::ins::VT::I32],
            locals: vec![],
            body: crate::progen::helper_body(),
            tag: None,
            magic: crate::progen::HELPER_MAGIC,
        });
        schedule.push(0);
    }
    // one history in four converts the program's own `helper2` (its last local function) into the import
    // `env.helper2`, which the simulated host implements with the same behaviour and fingerprint
    if rng.chance(1, 4) {
        if let Some(f) = base.funcs.last() {
            let c = rng.below(n_clients);
            clients[c].push(Op::ConvertLocalToImport { id: N_HOST + n_funcs as u32 - 1, module: "env".into(), name: "helper2".into(), ty: f.ty, tag: None });
            schedule.push(c as u8);
        }
    }
    for _ in 0..n_ops {
        let c = rng.below(n_clients);
        if p.edits && rng.chance(1, 6) {
            // a second probe import, added through the API: probes of later sites may call it (its ID is
            // re-mapped when encoding, unlike the IDs of the four original host imports)
            if let Some(ty) = base.imports.get(F_PROBE as usize).and_then(|i| match i.kind { crate::spec::ImpKind::Func(t) => Some(t), _ => None }) {
                clients[c].push(Op::AddImportFunc { module: "envx".into(), name: "probe".into(), ty, tag: None });
                schedule.push(c as u8);
                added_probe_imports.push(N_HOST + n_funcs as u32 + n_added_funcs);
                n_added_funcs += 1;
                continue;
            }
        }
        if p.edits && rng.chance(1, 4) {
            // an unrelated, index-shifting edit
            let op = match rng.below(3) {
                0 => Op::AddImportFunc {
                    module: "env".into(),
                    name: st.names.next("unused"),
                    ty: rng.below(base.flat_types().len()) as u32,
                    tag: None,
                },
                1 => Op::AddImportedGlobal {
                    module: "env".into(),
                    name: st.names.next("ug"),
                    ty: crate::ins::VT::I32,
                    mutable: false,
                    tag: None,
                },
                _ => Op::AddGlobal {
                    init: ConstE::I32(77),
                    ty: crate::ins::VT::I32,
                    mutable: false,
                    tag: None,
                },
            };
            if matches!(op, Op::AddImportFunc { .. }) {
                n_added_funcs += 1;
            }
            clients[c].push(op);
            schedule.push(c as u8);
            continue;
        }
        if helper_replaced && rng.chance(1, 3) {
            // sites in the replaced helper: instruction indices of `helper_body`
            let api = *rng.pick(&Api::MODULE);
            let mut sites = vec![];
            for _ in 0..rng.range(1, 2) {
                let mode = *rng.pick(&p.modes);
                let cands: &[u32] = match mode {
                    Mode::Before => &[3, 4, 5, 6, 7, 9, 10, 11, 12],
                    Mode::After => &[3, 4, 5, 6, 9, 10, 11, 12],
                    Mode::SemanticAfter => &[2, 7],
                    Mode::BlockEntry | Mode::BlockExit => &[2],
                    Mode::FuncEntry | Mode::FuncExit => &[0],
                    _ => &[],
                };
                if let Some(instr) = rng.pick_opt(cands) {
                    let magic = st.probe_magic();
                    sites.push(Site { instr: *instr, mode, body: probe_body(magic), magic, tag: None, clear: false });
                }
            }
            if !sites.is_empty() {
                clients[c].push(Op::Inject { func: F_HELPER, api, sites });
                schedule.push(c as u8);
            }
            continue;
        }
        let fi = rng.below(n_funcs);
        let func = N_HOST + fi as u32;
        let api = *rng.pick(&Api::MODULE);
        let mut sites = vec![];
        for _ in 0..rng.range(1, 3) {
            let mode = *rng.pick(&p.modes);
            let cands = candidates(&info.funcs[fi], &base.funcs[fi].body, mode);
            // one time in three a site goes where this history already instrumented something
            // (same instruction through another mode), so that modes meet on one construct
            let reuse: Vec<u32> = if rng.chance(1, 3) { used.iter().filter(|(f, i)| *f == fi && cands.contains(i)).map(|(_, i)| *i).collect() } else { vec![] };
            let instr = match rng.pick_opt(&reuse).or(rng.pick_opt(&cands)) {
                Some(i) => *i,
                None => continue,
            };
            used.push((fi, instr));
            // one site in ten shares the probe (same magic, byte-identical body) with an earlier site of this
            // function made in another mode: such groups are judged by the union of their expected firings
            let shareable = |m: Mode, i: u32| match m {
                Mode::Before | Mode::After | Mode::BlockEntry | Mode::BlockExit => true,
                Mode::SemanticAfter => !info.funcs[fi].branches.iter().any(|b| b.idx == i),
                _ => false,
            };
            let partner: Option<i32> = if shareable(mode, instr) && rng.chance(1, 6) {
                // preferably a probe that already sits on this very instruction in another mode
                let same: Vec<i32> = shared_pool.iter().filter(|(f, m, i, _)| *f == fi && *i == instr && *m != mode).map(|x| x.3).collect();
                let c: Vec<i32> = shared_pool.iter().filter(|(f, m, i, _)| *f == fi && !(*m == mode && *i == instr)).map(|x| x.3).collect();
                rng.pick_opt(&same).or(rng.pick_opt(&c)).copied()
            } else {
                None
            };
            let magic = partner.unwrap_or_else(|| st.probe_magic());
            if shareable(mode, instr) {
                shared_pool.push((fi, mode, instr, magic));
            }
            let mut body = probe_body(magic);
            if !added_probe_imports.is_empty() && rng.chance(1, 2) {
                body[1] = Ins::Call(*rng.pick(&added_probe_imports));
            }
            if mode == Mode::Alternate {
                // a neutral replacement: the probe, then the instruction itself; one per instruction
                if clients.iter().flatten().any(|o| matches!(o, Op::Inject { func: f, sites: s, .. } if *f == func && s.iter().any(|x| x.instr == instr && x.mode == Mode::Alternate)))
                    || sites.iter().any(|x: &Site| x.instr == instr && x.mode == Mode::Alternate)
                {
                    continue;
                }
                body.push(base.funcs[fi].body[instr as usize].clone());
            }
            sites.push(Site {
                instr,
                mode,
                body,
                magic,
                tag: None,
                clear: false,
            });
        }
        if !sites.is_empty() {
            clients[c].push(Op::Inject { func, api, sites });
            schedule.push(c as u8);
        }
    }
    let faulty = !rng.chance(1, 4);
    let plan = gen_plan(&mut rng, &base, faulty);
    let hash_seed = rng.next();
    Ok(Scenario {
        property: id.into(),
        profile: p.name.into(),
        seed: run_seed,
        hash_seed,
        multi_memory: false,
        base,
        clients,
        schedule,
        scheduler: "uniform".into(),
        tail: match rng.below(7) {
            6 => vec![Tail::PullSideEffects, Tail::Encode],
            0 => vec![Tail::Encode, Tail::Encode],
            1 => vec![Tail::EmitFail(crate::exec::FailKind::Enospc), Tail::Encode],
            _ => vec![Tail::Encode],
        },
        exec: Some(plan),
        info: Some(info),
        walk: None,
        comp: None,
        xproc: 0,
    })
}

#[derive(Default)]
pub struct ExecStats {
    pub executed_calls: u64,
    pub capped: u64,
    pub trapped: u64,
    pub host_traps: u64,
    pub interp_steps: u64,
    pub probes_fired: u64,
    pub loop_iterated: u64,
    pub tail_exits: u64,
}

use std::sync::atomic::{AtomicU64, Ordering};
pub static G_CALLS: AtomicU64 = AtomicU64::new(0);
pub static G_CAPPED: AtomicU64 = AtomicU64::new(0);
pub static G_TRAPPED: AtomicU64 = AtomicU64::new(0);
pub static G_HOST_TRAPS: AtomicU64 = AtomicU64::new(0);
pub static G_STEPS: AtomicU64 = AtomicU64::new(0);
pub static G_PROBES: AtomicU64 = AtomicU64::new(0);
pub static G_LOOPS: AtomicU64 = AtomicU64::new(0);
pub static G_TAILS: AtomicU64 = AtomicU64::new(0);

pub fn flush_stats(s: &ExecStats) {
    G_CALLS.fetch_add(s.executed_calls, Ordering::Relaxed);
    G_CAPPED.fetch_add(s.capped, Ordering::Relaxed);
    G_TRAPPED.fetch_add(s.trapped, Ordering::Relaxed);
    G_HOST_TRAPS.fetch_add(s.host_traps, Ordering::Relaxed);
    G_STEPS.fetch_add(s.interp_steps, Ordering::Relaxed);
    G_PROBES.fetch_add(s.probes_fired, Ordering::Relaxed);
    G_LOOPS.fetch_add(s.loop_iterated, Ordering::Relaxed);
    G_TAILS.fetch_add(s.tail_exits, Ordering::Relaxed);
}

pub fn stats_json() -> serde_json::Value {
    serde_json::json!({
        "executed_calls_pairs": G_CALLS.load(Ordering::Relaxed),
        "discarded_step_cap": G_CAPPED.load(Ordering::Relaxed),
        "runs_ending_in_trap": G_TRAPPED.load(Ordering::Relaxed),
        "host_trap_fault_fired": G_HOST_TRAPS.load(Ordering::Relaxed),
        "interpreter_instructions_retired": G_STEPS.load(Ordering::Relaxed),
        "probe_events_observed": G_PROBES.load(Ordering::Relaxed),
        "calls_with_a_repeated_mark(loop_iterated)": G_LOOPS.load(Ordering::Relaxed),
        "exit_instrumented_activations_left_by_tail_call": G_TAILS.load(Ordering::Relaxed),
    })
}

/// What the targets of the branch at `idx` are: "func_label", "block", "if", "loop" (sorted, '+'-joined)
fn target_classes(body: &[Ins], idx: usize) -> String {
    let mut stack: Vec<&'static str> = vec![];
    for ins in &body[..idx] {
        match ins {
            Ins::Block(_) => stack.push("block"),
            Ins::Loop(_) => stack.push("loop"),
            Ins::If(_) => stack.push("if"),
            Ins::TryTable(..) => stack.push("try_table"),
            Ins::End => {
                stack.pop();
            }
            _ => {}
        }
    }
    let class = |d: u32| -> &'static str {
        let d = d as usize;
        if d >= stack.len() {
            "func_label"
        } else {
            stack[stack.len() - 1 - d]
        }
    };
    let mut v: Vec<&'static str> = match &body[idx] {
        Ins::Br(d) | Ins::BrIf(d) | Ins::BrOnNull(d) | Ins::BrOnNonNull(d) | Ins::BrOnCast(d, ..) | Ins::BrOnCastFail(d, ..) => vec![class(*d)],
        Ins::BrTable(t, d) => {
            let mut v: Vec<&'static str> = t.iter().map(|x| class(*x)).collect();
            v.push(class(*d));
            v
        }
        _ => vec![],
    };
    v.sort();
    v.dedup();
    v.join("+")
}

fn is_probe(e: &Ev) -> bool {
    matches!(e, Ev::Probe(_))
}

/// Projection of the trace onto {first, second} must alternate (first second)*; between a paired
/// first and second only probe events may occur. A trailing unmatched `first` is allowed only if the
/// run ended in a trap.
fn check_alternation(trace: &[Ev], first: &Ev, second: &Ev, trapped: bool, what: &str) -> Option<String> {
    let mut open: Option<usize> = None;
    for (i, e) in trace.iter().enumerate() {
        if e == first {
            if open.is_some() {
                return Some(format!("{what}: {:?} occurs twice without {:?} in between (event {i})", first, second));
            }
            open = Some(i);
        } else if e == second {
            match open {
                None => return Some(format!("{what}: {:?} occurs without a preceding {:?} (event {i})", second, first)),
                Some(s) => {
                    if let Some(bad) = trace[s + 1..i].iter().find(|x| !is_probe(x)) {
                        return Some(format!("{what}: {:?} lies between {:?} and {:?}", bad, first, second));
                    }
                    open = None;
                }
            }
        }
    }
    if open.is_some() && !trapped {
        return Some(format!("{what}: {:?} is not followed by {:?}", first, second));
    }
    None
}

/// The probe must fire exactly where the original run produced the virtual control-flow event
/// `(kind, li, pc)`: same count, and the same position among the original (non-probe) events. This
/// needs no anchor instruction next to the construct, so it also judges constructs whose `end`s and
/// `else`s are adjacent to other structural instructions.
fn virt_rule(o: &RunOut, t: &RunOut, kind: u8, li: usize, pc: u32, p: &Ev, what: &str) -> Option<String> {
    let exp: Vec<usize> = o.virt.iter().filter(|v| v.1 == kind && v.2 as usize == li && v.3 == pc).map(|v| v.0).collect();
    let mut got = vec![];
    let mut n = 0usize;
    for e in &t.trace {
        if e == p {
            got.push(n);
        } else if !is_probe(e) {
            n += 1;
        }
    }
    if exp == got {
        return None;
    }
    let k = exp.iter().zip(got.iter()).position(|(a, b)| a != b).unwrap_or(exp.len().min(got.len()));
    Some(format!(
        "{what}: probe fired {} times, the original run {} the construct {} times; first difference at occurrence {k}: probe after original event #{:?}, expected after #{:?} (event there: {:?})",
        got.len(),
        match kind {
            crate::interp::V_ENTER => "entered",
            crate::interp::V_FALL => "fell through",
            crate::interp::V_EXEC => "was about to execute",
            crate::interp::V_DONE => "completed",
            _ => "reached the instruction after",
        },
        exp.len(),
        got.get(k),
        exp.get(k),
        exp.get(k).and_then(|i| i.checked_sub(1)).and_then(|i| o.trace.get(i)),
    ))
}

/// Activations of the trace: (function magic, index of Enter, index of Leave (or len), how)
fn activations(trace: &[Ev]) -> Vec<(i64, usize, usize, Option<LeaveHow>)> {
    let mut out = vec![];
    let mut stack: Vec<usize> = vec![];
    for (i, e) in trace.iter().enumerate() {
        match e {
            Ev::Enter(m) => {
                stack.push(out.len());
                out.push((*m, i, trace.len(), None));
            }
            Ev::Leave(_, how) => {
                if let Some(k) = stack.pop() {
                    out[k].2 = i;
                    out[k].3 = Some(how.clone());
                }
            }
            _ => {}
        }
    }
    out
}

/// Events emitted directly by the activation spanning (start, end): callee activations are
/// collapsed into a single `Enter` marker.
fn direct_events(trace: &[Ev], start: usize, end: usize) -> Vec<(usize, Ev)> {
    let mut v = vec![];
    let mut depth = 0;
    for i in start + 1..end {
        match &trace[i] {
            Ev::Enter(m) => {
                if depth == 0 {
                    v.push((i, Ev::Enter(*m)));
                }
                depth += 1;
            }
            Ev::Leave(..) => depth -= 1,
            e => {
                if depth == 0 {
                    v.push((i, e.clone()));
                }
            }
        }
    }
    v
}

pub fn judge_exec(id: &str, sc: &Scenario, stats: &mut ExecStats) -> (Judged, RunResult) {
    let res = run(sc);
    let mut owned: Vec<Mismatch> = vec![];
    let mut others: Vec<Mismatch> = vec![];
    let mut harness_error = res.parse_err.clone().map(|e| format!("library refused a validated program: {e}"));
    let (plan, info) = match (&sc.exec, &sc.info) {
        (Some(p), Some(i)) => (p, i),
        _ => {
            return (
                Judged {
                    owned,
                    others,
                    harness_error: Some("scenario without exec plan".into()),
                },
                res,
            )
        }
    };
    let mut push = |owner: &str, m: Mismatch, owned: &mut Vec<Mismatch>, others: &mut Vec<Mismatch>| {
        if owner == id {
            owned.push(m)
        } else {
            others.push(m)
        }
    };
    for m in crate::oracle::judge_panics(sc, &res) {
        push("C16", m, &mut owned, &mut others);
    }
    for l in &res.logs {
        if l.contains("BUG:") {
            push("C22", Mismatch::new("bug_log_line", &l.chars().take(50).collect::<String>(), l.clone()), &mut owned, &mut others);
        }
    }
    // the module a user ends up with: the last encoding (a retried / repeated encode must give a
    // module with the same behaviour as the first one)
    let last = res.tails.iter().rev().find_map(|t| match t {
        crate::exec::TailOutcome::Bytes(b) => Some(b),
        _ => None,
    });
    let _ = first_bytes(&res);
    let out_bytes = match last {
        Some(b) => b.clone(),
        None => {
            return (Judged { owned, others, harness_error }, res);
        }
    };
    if let Err(e) = validate(&out_bytes) {
        let short: String = e.split(" (at offset").next().unwrap_or(&e).chars().take(60).collect();
        let short: String = short.chars().map(|c| if c.is_ascii_digit() { '#' } else { c }).collect();
        push("C16", Mismatch::new("invalid_output", &short, e), &mut owned, &mut others);
        return (Judged { owned, others, harness_error }, res);
    }
    let inst_mod = match decode(&out_bytes) {
        Ok(m) => m,
        Err(e) => {
            harness_error = Some(format!("valid output not decodable: {e}"));
            return (Judged { owned, others, harness_error }, res);
        }
    };
    let orig_mod = match decode(&sc.base.to_bytes()) {
        Ok(m) => m,
        Err(e) => {
            harness_error = Some(format!("base not decodable: {e}"));
            return (Judged { owned, others, harness_error }, res);
        }
    };
    // the probes the library accepted: (func id, magic, mode, instr)
    let accepted: Vec<(u32, i32, Mode, u32)> = res.model.accepted_probes.iter().map(|p| (p.0, p.1, p.2, p.4)).collect();
    for (name, args) in &plan.calls {
        let fidx = match orig_mod.exports.iter().find(|e| e.name == *name) {
            Some(e) => e.index,
            None => continue,
        };
        let (ptys, _) = orig_mod.func_sig(orig_mod.func_type_of(fidx).unwrap()).unwrap();
        let vals: Vec<Val> = ptys
            .iter()
            .zip(args.iter())
            .map(|(t, v)| if *t == crate::ins::VT::I32 { Val::I32(*v as i32) } else { Val::I64(*v) })
            .collect();
        let watch: Vec<(u32, u32)> = accepted
            .iter()
            .filter(|a| matches!(a.2, Mode::Before | Mode::After))
            .filter_map(|a| a.0.checked_sub(N_HOST).map(|f| (f, a.3)))
            .collect();
        let o = crate::interp::run_export_watch(&orig_mod, name, vals.clone(), plan.tape.clone(), plan.trap_at, 200_000, true, watch);
        let t = run_export(&inst_mod, name, vals, plan.tape.clone(), plan.trap_at, 400_000);
        let (o, t) = match (o, t) {
            (Ok(o), Ok(t)) => (o, t),
            (Err(e), _) | (_, Err(e)) => {
                harness_error = Some(format!("instantiate: {e}"));
                break;
            }
        };
        stats.executed_calls += 1;
        stats.interp_steps += o.steps + t.steps;
        match (&o.result, &t.result) {
            (Err(Stop::Harness(e)), _) | (_, Err(Stop::Harness(e))) => {
                harness_error = Some(format!("interpreter: {e}"));
                break;
            }
            (Err(Stop::Cap), _) | (_, Err(Stop::Cap)) => {
                stats.capped += 1;
                continue;
            }
            _ => {}
        }
        let trapped = matches!(t.result, Err(Stop::Trap(_)));
        if trapped {
            stats.trapped += 1;
            if matches!(t.result, Err(Stop::Trap(Trap::Host))) {
                stats.host_traps += 1;
            }
        }
        stats.probes_fired += t.trace.iter().filter(|e| is_probe(e)).count() as u64;
        // ---- C16: behaviour preserved
        let ro = o.result.as_ref().map_err(|s| format!("{:?}", s));
        let rt = t.result.as_ref().map_err(|s| format!("{:?}", s));
        if ro.is_ok() != rt.is_ok() || (ro.is_err() && ro != rt) {
            push("C16", Mismatch::new("exec_trap_diff", "trap", format!("{name}{:?}: original {:?}, instrumented {:?}", args, ro, rt)), &mut owned, &mut others);
        } else if ro != rt {
            push("C16", Mismatch::new("exec_result_diff", "result", format!("{name}{:?}: original {:?}, instrumented {:?}", args, ro, rt)), &mut owned, &mut others);
        }
        // added globals sit at other indices: compare the program's own two globals by value order
        let ni = inst_mod.num_imp_globals() as usize;
        let ng = o.globals.len().min(2);
        if t.globals.len() < ni + ng || t.globals[ni..ni + ng] != o.globals[..ng] {
            push("C16", Mismatch::new("exec_state_diff", "globals", format!("{name}{:?}: {:?} vs {:?}", args, o.globals, t.globals)), &mut owned, &mut others);
        }
        if o.mem_digest != t.mem_digest {
            push("C16", Mismatch::new("exec_state_diff", "memory", format!("{name}{:?}", args)), &mut owned, &mut others);
        }
        let proj: Vec<&Ev> = t.trace.iter().filter(|e| !is_probe(e)).collect();
        let same_structure = proj.len() == o.trace.len() && proj.iter().zip(o.trace.iter()).all(|(a, b)| *a == b);
        if !same_structure {
            let k = proj.iter().zip(o.trace.iter()).position(|(a, b)| *a != b).unwrap_or(proj.len().min(o.trace.len()));
            push(
                "C16",
                Mismatch::new(
                    "mark_trace_diff",
                    "trace",
                    format!("{name}{:?}: traces differ at event {k}: original {:?} instrumented {:?}", args, o.trace.get(k), proj.get(k)),
                ),
                &mut owned,
                &mut others,
            );
            continue; // timing rules presuppose the same control path
        }
        if o.trace.iter().filter(|e| matches!(e, Ev::Mark(_))).count() > 0 {
            // loops iterate: some mark fires more than once
            let mut seen = std::collections::HashSet::new();
            if o.trace.iter().any(|e| matches!(e, Ev::Mark(k) if !seen.insert(*k))) {
                stats.loop_iterated += 1;
            }
        }
        // ---- timing rules per accepted probe
        let acts_t = activations(&t.trace);
        let acts_o = activations(&o.trace);
        // probes shared by several sites (same magic): the firings must be exactly the union of what each
        // site calls for
        let mut shared_magics: Vec<i32> = vec![];
        for (k, a) in accepted.iter().enumerate() {
            if accepted.iter().enumerate().any(|(j, b)| j != k && b.1 == a.1) && !shared_magics.contains(&a.1) {
                shared_magics.push(a.1);
            }
        }
        for magic in &shared_magics {
            let mut exp: Vec<usize> = vec![];
            let mut owners: Vec<(&'static str, String)> = vec![];
            let mut judgeable = true;
            for (func, _, mode, instr) in accepted.iter().filter(|a| a.1 == *magic) {
                let fi = match func.checked_sub(N_HOST) {
                    Some(k) if (k as usize) < info.funcs.len() => k as usize,
                    _ => {
                        judgeable = false;
                        continue;
                    }
                };
                let c = info.funcs[fi].constructs.iter().find(|c| c.opener == *instr || c.else_idx == Some(*instr));
                let (kind, pc, owner, site): (u8, u32, &'static str, String) = match mode {
                    Mode::Before => (crate::interp::V_EXEC, *instr, "C16", "before_after_timing@before".into()),
                    Mode::After => (crate::interp::V_DONE, *instr, "C16", "before_after_timing@after".into()),
                    Mode::BlockEntry => (crate::interp::V_ENTER, *instr, "C18", "probe_timing@block_entry:shared_probe".into()),
                    Mode::BlockExit => match c {
                        Some(c) => (crate::interp::V_FALL, if c.opener == *instr { c.else_idx.unwrap_or(c.end) } else { c.end }, "C19", "probe_timing@block_exit:shared_probe".into()),
                        None => {
                            judgeable = false;
                            continue;
                        }
                    },
                    Mode::SemanticAfter => match c {
                        Some(c) if c.kind != CK::Loop => (crate::interp::V_AFTER, c.end, "C20", "probe_timing@semantic_after:shared_probe".into()),
                        _ => {
                            judgeable = false;
                            continue;
                        }
                    },
                    _ => {
                        judgeable = false;
                        continue;
                    }
                };
                exp.extend(o.virt.iter().filter(|v| v.1 == kind && v.2 as usize == fi && v.3 == pc).map(|v| v.0));
                owners.push((owner, site));
            }
            if !judgeable {
                continue;
            }
            exp.sort();
            let p = Ev::Probe(*magic);
            let mut got = vec![];
            let mut n = 0usize;
            for e in &t.trace {
                if *e == p {
                    got.push(n);
                } else if !is_probe(e) {
                    n += 1;
                }
            }
            if exp != got {
                for (owner, site) in owners {
                    let (kind, s) = site.split_once('@').unwrap();
                    push(
                        owner,
                        Mismatch::new(kind, s, format!("a probe shared by several sites fired {} times at original-event positions {:?}; the sites together call for {} firings at {:?}", got.len(), &got[..got.len().min(12)], exp.len(), &exp[..exp.len().min(12)])),
                        &mut owned,
                        &mut others,
                    );
                }
            }
        }
        for (func, magic, mode, instr) in &accepted {
            if shared_magics.contains(magic) {
                continue;
            }
            let fi = match func.checked_sub(N_HOST) {
                Some(k) if (k as usize) < info.funcs.len() => k as usize,
                _ => continue,
            };
            let finfo = &info.funcs[fi];
            let p = Ev::Probe(*magic);
            match mode {
                Mode::Before => {
                    let e1 = finfo.plains.iter().find(|x| x.idx == *instr).and_then(|pl| check_alternation(&t.trace, &Ev::Mark(pl.m_pre), &p, trapped, "before"));
                    if let Some(e) = e1.or_else(|| virt_rule(&o, &t, crate::interp::V_EXEC, fi, *instr, &p, "before")) {
                        push("C16", Mismatch::new("before_after_timing", "before", e), &mut owned, &mut others);
                    }
                }
                Mode::After => {
                    let e1 = finfo.plains.iter().find(|x| x.idx == *instr).and_then(|pl| check_alternation(&t.trace, &p, &Ev::Mark(pl.m_post), trapped, "after"));
                    if let Some(e) = e1.or_else(|| virt_rule(&o, &t, crate::interp::V_DONE, fi, *instr, &p, "after")) {
                        push("C16", Mismatch::new("before_after_timing", "after", e), &mut owned, &mut others);
                    }
                }
                Mode::BlockEntry => {
                    let anchor = finfo
                        .constructs
                        .iter()
                        .find(|c| c.opener == *instr)
                        .map(|c| (c.m_entry, format!("{:?}", c.kind)))
                        .or_else(|| finfo.constructs.iter().find(|c| c.else_idx == Some(*instr)).map(|c| (c.m_else_entry.unwrap_or(0), "Else".to_string())));
                    if let Some((m, k)) = anchor {
                        let e1 = if m != 0 { check_alternation(&t.trace, &p, &Ev::Mark(m), trapped, "block_entry") } else { None };
                        let e = e1.or_else(|| virt_rule(&o, &t, crate::interp::V_ENTER, fi, *instr, &p, "block_entry"));
                        if let Some(e) = e {
                            push("C18", Mismatch::new("probe_timing", &format!("block_entry:{k}"), e), &mut owned, &mut others);
                        }
                    }
                }
                Mode::BlockExit => {
                    let anchor = finfo
                        .constructs
                        .iter()
                        .find(|c| c.opener == *instr)
                        .map(|c| (c.m_fall, format!("{:?}", c.kind)))
                        .or_else(|| finfo.constructs.iter().find(|c| c.else_idx == Some(*instr)).map(|c| (c.m_else_fall.unwrap_or(0), "Else".to_string())));
                    if let Some((m, k)) = anchor {
                        let e1 = if m != 0 { check_alternation(&t.trace, &Ev::Mark(m), &p, trapped, "block_exit") } else { None };
                        // where the body falls through to: an `if` with else -> its `else`; otherwise the `end`
                        let c = finfo.constructs.iter().find(|c| c.opener == *instr || c.else_idx == Some(*instr));
                        let fall_pc = c.map(|c| if c.opener == *instr { c.else_idx.unwrap_or(c.end) } else { c.end });
                        let e = e1.or_else(|| fall_pc.and_then(|pc| virt_rule(&o, &t, crate::interp::V_FALL, fi, pc, &p, "block_exit")));
                        if let Some(e) = e {
                            push("C19", Mismatch::new("probe_timing", &format!("block_exit:{k}"), e), &mut owned, &mut others);
                        }
                    }
                }
                Mode::SemanticAfter => {
                    let construct = finfo
                        .constructs
                        .iter()
                        .find(|c| c.opener == *instr)
                        .map(|c| (c.m_after, format!("{:?}", c.kind)))
                        .or_else(|| finfo.constructs.iter().find(|c| c.else_idx == Some(*instr)).map(|c| (c.m_after, "Else".to_string())));
                    if let Some((m, k)) = construct {
                        if k == "Loop" {
                            continue; // outside the property
                        }
                        let e1 = if m != 0 { check_alternation(&t.trace, &p, &Ev::Mark(m), trapped, "semantic_after") } else { None };
                        let end_pc = finfo.constructs.iter().find(|c| c.opener == *instr || c.else_idx == Some(*instr)).map(|c| c.end);
                        let e = e1.or_else(|| end_pc.and_then(|pc| virt_rule(&o, &t, crate::interp::V_AFTER, fi, pc, &p, "semantic_after")));
                        if let Some(e) = e {
                            push("C20", Mismatch::new("probe_timing", &format!("semantic_after:{k}"), e), &mut owned, &mut others);
                        }
                    } else if let Some(b) = finfo.branches.iter().find(|b| b.idx == *instr) {
                        if b.targets_loop {
                            continue;
                        }
                        // per activation of this function: windows [M_br .. next mark | Leave]
                        let mut err: Option<(String, String)> = None;
                        for (m, s, e, how) in &acts_t {
                            if *m != finfo.magic {
                                continue;
                            }
                            let d = direct_events(&t.trace, *s, *e);
                            let mut in_window = false;
                            let mut count = 0;
                            let mut fired_properly_before = false;
                            for (_, ev) in &d {
                                match ev {
                                    Ev::Mark(k) => {
                                        if in_window && count != 1 {
                                            let sym = if count == 0 { "never_fired" } else { "fired_repeatedly" };
                                            err = Some((sym.into(), format!("branch executed (mark {}) but probe fired {count} times before the next mark {k}", b.m_br)));
                                        }
                                        if in_window && count == 1 {
                                            fired_properly_before = true;
                                        }
                                        in_window = *k == b.m_br;
                                        count = 0;
                                    }
                                    Ev::Probe(x) if *x == *magic => {
                                        if in_window {
                                            count += 1;
                                        } else {
                                            // a stale flag (an earlier genuine firing in this activation) or a misplaced body
                                            let sym = if fired_properly_before { "refired_after_genuine_firing" } else { "fired_without_branch" };
                                            err = Some((sym.into(), format!("probe fired outside any execution of the branch (mark {})", b.m_br)));
                                        }
                                    }
                                    _ => {}
                                }
                                if err.is_some() {
                                    break;
                                }
                            }
                            if err.is_none() && in_window {
                                let trap_close = matches!(how, Some(LeaveHow::Trap(_))) || how.is_none();
                                if !(count == 1 || (trap_close && count <= 1)) {
                                    let sym = if count == 0 { "never_fired" } else { "fired_repeatedly" };
                                    err = Some((sym.into(), format!("branch executed (mark {}) but probe fired {count} times before the function was left", b.m_br)));
                                }
                            }
                            if err.is_some() {
                                break;
                            }
                        }
                        if let Some((sym, e)) = err {
                            let body = &sc.base.funcs[fi].body;
                            let kind = match body[*instr as usize] {
                                Ins::Br(_) => "br",
                                Ins::BrIf(_) => "br_if",
                                Ins::BrOnNull(_) => "br_on_null",
                                Ins::BrOnNonNull(_) => "br_on_non_null",
                                Ins::BrOnCast(..) => "br_on_cast",
                                Ins::BrOnCastFail(..) => "br_on_cast_fail",
                                _ => "br_table",
                            };
                            let tc = target_classes(body, *instr as usize);
                            // a br_table with several distinct targets whose ends follow each other: the
                            // flag that is still set after the first firing fires the copy at the next
                            // target's end as well (same root cause as refired_after_genuine_firing)
                            let sym = match &body[*instr as usize] {
                                Ins::BrTable(t, d) if sym == "fired_repeatedly" && t.iter().any(|x| x != d) => "fired_repeatedly(nested_targets)".to_string(),
                                _ => sym,
                            };
                            push("C20", Mismatch::new("probe_timing", &format!("semantic_after:{kind}:{tc}:{sym}"), e), &mut owned, &mut others);
                        }
                    }
                }
                Mode::FuncEntry | Mode::FuncExit => {
                    let mut k = 0;
                    for (ai, (m, s, e, _)) in acts_t.iter().enumerate() {
                        if *m != finfo.magic {
                            continue;
                        }
                        let mut d = direct_events(&t.trace, *s, *e);
                        if *mode == Mode::FuncExit && !finfo.caught_throws.is_empty() {
                            // an explicit throw that a try_table of this function catches: the exit probe
                            // fires once immediately before it (the window between the anchor in front of
                            // the throw and the next original event), and the activation goes on
                            let mut bad = None;
                            let mut i = 0;
                            while i < d.len() {
                                if let Ev::Mark(k) = d[i].1 {
                                    if finfo.caught_throws.iter().any(|c| c.1 == k) {
                                        let mut j = i + 1;
                                        let mut fired = vec![];
                                        while j < d.len() && is_probe(&d[j].1) {
                                            if d[j].1 == p {
                                                fired.push(j);
                                            }
                                            j += 1;
                                        }
                                        // the window closed by the end of the activation means the run was
                                        // cut short (host trap at the anchor never records it; step cap discards)
                                        if fired.len() != 1 && j < d.len() {
                                            bad = Some(format!("activation of {:#x}: exit probe fired {} times immediately before a caught throw (mark {k})", m, fired.len()));
                                            break;
                                        }
                                        for f in fired.iter().rev() {
                                            d.remove(*f);
                                        }
                                    }
                                }
                                i += 1;
                            }
                            if let Some(e) = bad {
                                push("C17", Mismatch::new("probe_timing", "func_exit:caught_throw", e), &mut owned, &mut others);
                                break;
                            }
                        }
                        let n = d.iter().filter(|(_, ev)| *ev == p).count();
                        let mut orig_how = acts_o.get(ai).and_then(|a| a.3.clone());
                        // a trap that propagated out of a callee is not this function's own
                        // `unreachable`: the event before our Leave is then the callee's Leave(Trap)
                        if let (Some(LeaveHow::Trap(Trap::Unreachable | Trap::Exception)), Some(a)) = (&orig_how, acts_o.get(ai)) {
                            if a.2 > 0 && matches!(o.trace.get(a.2 - 1), Some(Ev::Leave(_, LeaveHow::Trap(_)))) {
                                orig_how = Some(LeaveHow::Trap(Trap::Depth)); // "other trap": no timing rule
                            }
                        }
                        if *mode == Mode::FuncEntry {
                            let first_other = d.iter().position(|(_, ev)| !is_probe(ev));
                            let pos = d.iter().position(|(_, ev)| *ev == p);
                            // an exit probe of the SAME function ahead of the entry probe: the function was
                            // "left" before it was "entered" (probes that are not shared between sites only)
                            let exit_first = pos.map_or(false, |pp| {
                                d[..pp].iter().any(|(_, ev)| {
                                    accepted.iter().any(|(f2, m2, md2, _)| f2 == func && *md2 == Mode::FuncExit && !shared_magics.contains(m2) && *ev == Ev::Probe(*m2))
                                })
                            });
                            let ok = !exit_first
                                && n == 1
                                && match (pos, first_other) {
                                    (Some(pp), Some(fo)) => pp < fo,
                                    (Some(_), None) => true,
                                    _ => false,
                                };
                            if !ok {
                                push(
                                    "C17",
                                    Mismatch::new("probe_timing", "func_entry", format!("activation {k} of {:#x}: entry probe fired {n} times / not first: {:?}", m, d.iter().take(6).map(|x| &x.1).collect::<Vec<_>>())),
                                    &mut owned,
                                    &mut others,
                                );
                                break;
                            }
                        } else {
                            // an activation of the original that ends with a call and nothing after it
                            // left through a tail call (every ordinary call is followed by an anchor)
                            let tail_exit = acts_o
                                .get(ai)
                                .map(|a| matches!(direct_events(&o.trace, a.1, a.2).last(), Some((_, Ev::Enter(_)))))
                                .unwrap_or(false);
                            if tail_exit {
                                stats.tail_exits += 1;
                            }
                            let last_is_probe_run = {
                                // nothing but probes after our probe (and, for a tail call, the callee)
                                match d.iter().position(|(_, ev)| *ev == p) {
                                    Some(pp) => {
                                        let rest = &d[pp + 1..];
                                        let rest = match rest.last() {
                                            Some((_, Ev::Enter(_))) if tail_exit => &rest[..rest.len() - 1],
                                            _ => rest,
                                        };
                                        rest.iter().all(|(_, ev)| is_probe(ev))
                                    }
                                    None => false,
                                }
                            };
                            let verdict = match &orig_how {
                                Some(LeaveHow::Normal) => n == 1 && last_is_probe_run,
                                Some(LeaveHow::Trap(Trap::Unreachable | Trap::Exception)) => n == 1 && last_is_probe_run,
                                _ => n <= 1,
                            };
                            if !verdict {
                                let how = match &orig_how {
                                    Some(LeaveHow::Normal) => "normal",
                                    Some(LeaveHow::Trap(Trap::Unreachable)) => "unreachable",
                                    Some(LeaveHow::Trap(Trap::Exception)) => "throw",
                                    _ => "other",
                                };
                                push(
                                    "C17",
                                    Mismatch::new("probe_timing", &format!("func_exit:{how}"), format!("activation {k} of {:#x} ({:?}): exit probe fired {n} times, last-event={last_is_probe_run}", m, orig_how)),
                                    &mut owned,
                                    &mut others,
                                );
                                break;
                            }
                        }
                        k += 1;
                    }
                }
                _ => {}
            }
        }
    }
    // A stale flag (known weakness: the flag of a semantic-after branch probe is not reset when its
    // body runs) makes the if/else-if chain at a shared target pick the stale body, so another
    // branch probe resolved at the same end stays silent: same root cause, reported as such.
    for list in [&mut owned, &mut others] {
        let stale = list.iter().any(|m| m.kind == "probe_timing" && m.site.ends_with(":refired_after_genuine_firing"));
        if stale {
            for m in list.iter_mut() {
                if m.kind == "probe_timing" && m.site.starts_with("semantic_after:") && m.site.ends_with(":never_fired") && !m.site.contains("func_label") {
                    m.site = format!("{}(masked_by_stale_flag)", m.site);
                }
            }
        }
    }
    (Judged { owned, others, harness_error }, res)
}
