//! Executes a `Scenario` against the real library and the reference model in lock-step.
use crate::ins::{encode_ins, read_ops, Ins, VT};
use crate::model::*;
use crate::spec::*;
use serde::{Deserialize, Serialize};
use std::cell::RefCell;
use std::panic::{catch_unwind, AssertUnwindSafe};
use wasmparser::Operator;
use wirm::ir::function::FunctionBuilder;
use wirm::ir::id::*;
use wirm::ir::module::module_globals::{Global, GlobalKind, LocalGlobal};
use wirm::ir::types::{CustomSection, HasInjectTag, InstrumentationMode, Tag};
use wirm::iterator::iterator_trait::{IteratingInstrumenter, Iterator as WIterator};
use wirm::iterator::module_iterator::ModuleIterator;
use wirm::module_builder::AddLocal;
use wirm::opcode::{Inject, InjectAt, Instrumenter};
use wirm::{DataSegment, DataSegmentKind, Location, Module};

#[derive(Clone, Copy, Debug, PartialEq, Eq, Hash, Serialize, Deserialize)]
pub enum FailKind {
    Enospc,
    Enoent,
    Eisdir,
}
impl FailKind {
    pub fn path(self) -> &'static str {
        match self {
            FailKind::Enospc => "/dev/full",
            FailKind::Enoent => "/verif/target/tmp/no-such-dir/x/out.wasm",
            FailKind::Eisdir => "/verif/target/tmp",
        }
    }
    pub fn name(self) -> &'static str {
        match self {
            FailKind::Enospc => "emit_fail_enospc",
            FailKind::Enoent => "emit_fail_enoent",
            FailKind::Eisdir => "emit_fail_eisdir",
        }
    }
}

#[derive(Clone, Copy, Debug, PartialEq, Eq, Hash, Serialize, Deserialize)]
pub enum Tail {
    Encode,
    EmitOk,
    EmitFail(FailKind),
    PullSideEffects,
}

#[derive(Clone, Debug, Default, PartialEq, Eq, Serialize, Deserialize)]
pub struct Scenario {
    pub property: String,
    pub profile: String,
    pub seed: u64,
    pub hash_seed: u64,
    pub multi_memory: bool,
    pub base: ModuleSpec,
    pub clients: Vec<Vec<Op>>,
    /// which client applies its next op (decided by the scheduler at generation time, recorded)
    pub schedule: Vec<u8>,
    pub scheduler: String,
    pub tail: Vec<Tail>,
    /// executed checks (C16-C20): what to call on the emitted module, and the anchors of the program
    #[serde(default)]
    pub exec: Option<crate::progen::ExecPlan>,
    #[serde(default)]
    pub info: Option<crate::progen::ProgInfo>,
    /// C25: iterator walk to observe after the history
    #[serde(default)]
    pub walk: Option<WalkPlan>,
    /// C26: the component under test and the plan applied through both iterator kinds
    #[serde(default)]
    pub comp: Option<crate::c26::CompPlan>,
    /// C04: number of fresh OS processes of the *unhooked* build (shipped code, std `RandomState`)
    /// whose output must equal the hooked seed-0 output; 0 = in-process hash seeds only
    #[serde(default)]
    pub xproc: u32,
}

/// The positions a module iterator must visit: every instruction of every local function not
/// listed as skipped, in function and instruction order.
pub fn expected_walk(model: &Model, plan: &WalkPlan) -> Vec<Visit> {
    let mut v = vec![];
    for f in 0..model.funcs.len() as u32 {
        if plan.skip.contains(&f) {
            continue;
        }
        if let Some(l) = model.local(f) {
            let n = l.body.len();
            for (i, mi) in l.body.iter().enumerate() {
                v.push((f, i as u32, i + 1 == n, mi.ins.clone()));
            }
        }
    }
    v
}

impl Scenario {
    /// ops in schedule order
    pub fn flat_ops(&self) -> Vec<(u8, &Op)> {
        let mut next = vec![0usize; self.clients.len()];
        let mut v = vec![];
        for c in &self.schedule {
            let c = *c as usize;
            if c < self.clients.len() && next[c] < self.clients[c].len() {
                v.push((c as u8, &self.clients[c][next[c]]));
                next[c] += 1;
            }
        }
        // any ops not covered by the schedule run afterwards in client order (keeps minimised
        // scenarios well-defined)
        for (c, ops) in self.clients.iter().enumerate() {
            while next[c] < ops.len() {
                v.push((c as u8, &ops[next[c]]));
                next[c] += 1;
            }
        }
        v
    }
}

#[derive(Clone, Debug, PartialEq, Eq, Serialize, Deserialize)]
pub struct PanicInfo {
    pub file: String,
    pub line: u32,
    pub msg: String,
}
impl PanicInfo {
    pub fn sig(&self) -> String {
        let m: String = self.msg.chars().take(40).collect();
        let m: String = m.chars().map(|c| if c.is_ascii_digit() { '#' } else { c }).collect();
        format!("{}:{}", self.file.rsplit('/').next().unwrap_or(""), m)
    }
}

thread_local! {
    static LAST_PANIC: RefCell<Option<PanicInfo>> = const { RefCell::new(None) };
    pub static LOGS: RefCell<Vec<String>> = const { RefCell::new(Vec::new()) };
}

pub fn install_panic_hook() {
    std::panic::set_hook(Box::new(|info| {
        let (file, line) = info
            .location()
            .map(|l| (l.file().to_string(), l.line()))
            .unwrap_or(("?".into(), 0));
        let msg = if let Some(s) = info.payload().downcast_ref::<&str>() {
            s.to_string()
        } else if let Some(s) = info.payload().downcast_ref::<String>() {
            s.clone()
        } else {
            "?".into()
        };
        // a panic outside `guarded` is a bug of the simulator itself: loud, and exit code 2 (harness
        // error), never a silent 101
        if GUARD_DEPTH.with(|d| d.get()) == 0 {
            eprintln!("harness error: simulator panicked at {file}:{line}: {msg}");
            std::process::exit(2);
        }
        LAST_PANIC.with(|p| *p.borrow_mut() = Some(PanicInfo { file, line, msg }));
    }));
}

thread_local! {
    static GUARD_DEPTH: std::cell::Cell<u32> = const { std::cell::Cell::new(0) };
}

pub fn guarded<T>(f: impl FnOnce() -> T) -> Result<T, PanicInfo> {
    LAST_PANIC.with(|p| *p.borrow_mut() = None);
    GUARD_DEPTH.with(|d| d.set(d.get() + 1));
    let r = catch_unwind(AssertUnwindSafe(f));
    GUARD_DEPTH.with(|d| d.set(d.get() - 1));
    match r {
        Ok(v) => Ok(v),
        Err(_) => Err(LAST_PANIC.with(|p| p.borrow_mut().take()).unwrap_or(PanicInfo {
            file: "?".into(),
            line: 0,
            msg: "?".into(),
        })),
    }
}

struct CapLogger;
impl log::Log for CapLogger {
    fn enabled(&self, _: &log::Metadata) -> bool {
        true
    }
    fn log(&self, r: &log::Record) {
        if r.level() <= log::Level::Warn {
            LOGS.with(|l| l.borrow_mut().push(format!("{}: {}", r.level(), r.args())));
        }
    }
    fn flush(&self) {}
}
static LOGGER: CapLogger = CapLogger;
pub fn install_logger() {
    let _ = log::set_logger(&LOGGER);
    log::set_max_level(log::LevelFilter::Warn);
}

#[derive(Clone, Debug, Serialize)]
pub enum OpOutcome {
    Skipped,
    Ok,
    /// returned value differs from the model's expectation
    ReturnMismatch { expected: String, got: String },
    Panicked(PanicInfo),
    /// per-site rejections inside an Inject op: (site index, panic)
    SiteRejected(Vec<(usize, PanicInfo)>),
}

#[derive(Clone, Debug, Serialize)]
pub enum TailOutcome {
    Bytes(Vec<u8>),
    EmitErr(String),
    EmitUnexpectedOk,
    Panicked(PanicInfo),
    SideFx(Vec<SideFx>),
}

/// Neutral rendering of one side-effect record.
#[derive(Clone, Debug, PartialEq, Eq, Serialize, PartialOrd, Ord)]
pub struct SideFx {
    pub kind: String,
    pub tag: Vec<u8>,
    /// identity of the item where the record carries one (import module/name, export name, id)
    pub key: String,
    pub content: String,
    /// decoded code body (probe / function records), references as encoded-module indices
    pub body: Vec<String>,
    pub body_ins: Vec<Ins>,
    pub target: Option<(u32, Option<u32>, String)>,
}

pub struct RunResult {
    /// a site was rejected at the call after its tag had already been attached (see `run_bytes`)
    pub tag_residue: bool,
    pub parse_err: Option<String>,
    pub outcomes: Vec<(u8, String, OpOutcome)>,
    pub tails: Vec<TailOutcome>,
    pub model: Model,
    pub logs: Vec<String>,
    pub ops_applied: usize,
    pub hash_maps: u64,
    /// invariants checked during the run that failed: (after op index, description)
    pub invariant_failures: Vec<(usize, String)>,
    pub first_panic: Option<(usize, String, PanicInfo)>,
    /// iterator walks (C25): one entry per requested walk
    pub walks: Vec<WalkObs>,
}

/// One visited position: (function id, instruction index, end-of-function flag, instruction)
pub type Visit = (u32, u32, bool, Ins);

#[derive(Clone, Debug, Serialize)]
pub struct WalkObs {
    pub what: String,
    pub result: Result<Vec<Visit>, PanicInfo>,
}

#[derive(Clone, Debug, Default, PartialEq, Eq, Serialize, Deserialize)]
pub struct WalkPlan {
    pub skip: Vec<u32>,
    /// number of next() calls before the reset in the partial-walk-then-reset observation
    pub partial: u32,
}

fn walk_all(it: &mut ModuleIterator) -> Vec<Visit> {
    let mut v = vec![];
    loop {
        if let (Location::Module { func_idx, instr_idx }, is_end) = it.curr_loc() {
            let op = it.curr_op().map(Ins::from_op).unwrap_or(Ins::Unknown("none".into()));
            v.push((*func_idx, instr_idx as u32, is_end, op));
        }
        if it.next().is_none() || v.len() > 200_000 {
            break;
        }
    }
    v
}

/// Like `walk_all`, but at every position the walker first selects an instrumentation mode at ANOTHER
/// location of the same function through the explicit-location call (no instruction is injected) and only
/// then reads what the iterator reports: the report must still describe the instruction being visited.
fn walk_all_instrumenting(it: &mut ModuleIterator) -> Vec<Visit> {
    let mut v = vec![];
    loop {
        if let (Location::Module { func_idx, instr_idx }, at_end) = it.curr_loc() {
            let other = Location::Module { func_idx, instr_idx: if instr_idx == 0 { 1 } else { 0 } };
            if at_end && instr_idx == 0 {
                // a body that is only the final `end` has no other instruction to name
            } else if v.len() % 3 != 2 {
                it.before_at(other);
            } else {
                it.after_at(other);
            }
            if let (Location::Module { func_idx, instr_idx }, is_end) = it.curr_loc() {
                let op = it.curr_op().map(Ins::from_op).unwrap_or(Ins::Unknown("none".into()));
                v.push((*func_idx, instr_idx as u32, is_end, op));
            }
        }
        if it.next().is_none() || v.len() > 200_000 {
            break;
        }
    }
    v
}

fn do_walks<'a>(module: &mut Module<'a>, plan: &WalkPlan, expect_empty: bool) -> Vec<WalkObs> {
    let skip: Vec<FunctionID> = plan.skip.iter().map(|f| FunctionID(*f)).collect();
    let mut out = vec![];
    if expect_empty {
        // nothing to visit: construction must work and next() must say so
        out.push(WalkObs {
            what: "empty".into(),
            result: guarded(|| {
                let mut it = ModuleIterator::new(module, &skip);
                let mut n = 0;
                while it.next().is_some() && n < 1000 {
                    n += 1;
                }
                (0..n).map(|i| (u32::MAX, i, false, Ins::Nop)).collect()
            }),
        });
        return out;
    }
    out.push(WalkObs {
        what: "fresh".into(),
        result: guarded(|| {
            let mut it = ModuleIterator::new(module, &skip);
            walk_all(&mut it)
        }),
    });
    out.push(WalkObs {
        what: "full_then_reset".into(),
        result: guarded(|| {
            let mut it = ModuleIterator::new(module, &skip);
            let _ = walk_all(&mut it);
            it.reset();
            walk_all(&mut it)
        }),
    });
    out.push(WalkObs {
        what: "partial_then_reset".into(),
        result: guarded(|| {
            let mut it = ModuleIterator::new(module, &skip);
            for _ in 0..plan.partial {
                if it.next().is_none() {
                    break;
                }
            }
            it.reset();
            walk_all(&mut it)
        }),
    });
    // last, because it leaves instrumentation modes selected on instructions
    out.push(WalkObs {
        what: "while_selecting_modes_elsewhere".into(),
        result: guarded(|| {
            let mut it = ModuleIterator::new(module, &skip);
            walk_all_instrumenting(&mut it)
        }),
    });
    out
}

fn tag_of(t: &Option<Vec<u8>>) -> Tag {
    Tag::new(t.clone().unwrap_or_default())
}

fn imode(m: Mode) -> Option<InstrumentationMode> {
    Some(match m {
        Mode::Before => InstrumentationMode::Before,
        Mode::After => InstrumentationMode::After,
        Mode::Alternate => InstrumentationMode::Alternate,
        Mode::SemanticAfter => InstrumentationMode::SemanticAfter,
        Mode::BlockEntry => InstrumentationMode::BlockEntry,
        Mode::BlockExit => InstrumentationMode::BlockExit,
        Mode::BlockAlt => InstrumentationMode::BlockAlt,
        _ => return None,
    })
}

/// Position a module iterator's cursor on (func, instr). Returns false if not reachable.
fn walk_to(it: &mut ModuleIterator, func: u32, instr: u32) -> bool {
    let mut guard = 0usize;
    loop {
        if let (Location::Module { func_idx, instr_idx }, _) = it.curr_loc() {
            if *func_idx == func && instr_idx == instr as usize {
                return true;
            }
        }
        if it.next().is_none() {
            return false;
        }
        guard += 1;
        if guard > 10_000_000 {
            return false;
        }
    }
}

fn set_mode_cursor<'a, T: IteratingInstrumenter<'a>>(it: &mut T, m: Mode) {
    match m {
        Mode::Before => {
            it.before();
        }
        Mode::After => {
            it.after();
        }
        Mode::Alternate => {
            it.alternate();
        }
        Mode::EmptyAlternate => {
            it.empty_alternate();
        }
        Mode::SemanticAfter => {
            it.semantic_after();
        }
        Mode::BlockEntry => {
            it.block_entry();
        }
        Mode::BlockExit => {
            it.block_exit();
        }
        Mode::BlockAlt => {
            it.block_alt();
        }
        Mode::EmptyBlockAlt => {
            it.empty_block_alt();
        }
        Mode::FuncEntry => {
            it.func_entry();
        }
        Mode::FuncExit => {
            it.func_exit();
        }
    }
}

pub fn set_mode_at<'a, T: Instrumenter<'a>>(it: &mut T, m: Mode, loc: Location) {
    match m {
        Mode::Before => {
            it.before_at(loc);
        }
        Mode::After => {
            it.after_at(loc);
        }
        Mode::Alternate => {
            it.alternate_at(loc);
        }
        Mode::EmptyAlternate => {
            it.empty_alternate_at(loc);
        }
        Mode::SemanticAfter => {
            it.semantic_after_at(loc);
        }
        Mode::BlockEntry => {
            it.block_entry_at(loc);
        }
        Mode::BlockExit => {
            it.block_exit_at(loc);
        }
        Mode::BlockAlt => {
            it.block_alt_at(loc);
        }
        Mode::EmptyBlockAlt => {
            it.empty_block_alt_at(loc);
        }
        Mode::FuncEntry => {
            it.func_entry();
        }
        Mode::FuncExit => {
            it.func_exit();
        }
    }
}

/// Perform one site's injection on a module through the requested API path.
pub fn inject_site<'a>(module: &mut Module<'a>, func: u32, api: Api, site: &Site, ops: Vec<Operator<'a>>) {
    let loc = Location::Module {
        func_idx: FunctionID(func),
        instr_idx: site.instr as usize,
    };
    let is_func_mode = matches!(site.mode, Mode::FuncEntry | Mode::FuncExit);
    let is_empty_mode = matches!(site.mode, Mode::EmptyAlternate | Mode::EmptyBlockAlt);
    if site.clear {
        let mode = imode(site.mode).expect("harness: clear of a mode without a list");
        match api {
            Api::Modifier | Api::ModifierInjectAt => {
                let mut fm = module.functions.get_fn_modifier(FunctionID(func)).expect("harness: not a local function");
                fm.clear_instr_at(loc, mode);
            }
            _ => {
                let mut it = ModuleIterator::new(module, &vec![]);
                it.clear_instr_at(loc, mode);
            }
        }
        return;
    }
    match api {
        Api::IterCursor | Api::IterAt | Api::IterInjectAt => {
            let n_instr = module.functions.unwrap_local(FunctionID(func)).body.instructions.len();
            let mut left_to_modifier = false;
            {
            let mut it = ModuleIterator::new(module, &vec![]);
            let use_cursor = api == Api::IterCursor || is_func_mode;
            if use_cursor {
                if !walk_to(&mut it, func, site.instr) {
                    panic!("harness: site not reachable by iterator");
                }
                set_mode_cursor(&mut it, site.mode);
                // the tag is attached before or after the body (half of the tagged sites each)
                let tag_first = site.tag.is_some() && site.magic % 2 == 1;
                if let (true, Some(t)) = (tag_first, &site.tag) {
                    it.append_to_tag(t.clone());
                }
                for op in ops {
                    it.inject(op);
                }
                if let (false, Some(t)) = (tag_first, &site.tag) {
                    it.append_to_tag(t.clone());
                }
                if is_func_mode {
                    // a careful client resets the mode it set through the documented call; one in four
                    // leaves it to the next `get_fn_modifier` of that function (which resets it as well)
                    if site.magic % 4 != 0 {
                        it.finish_instr();
                    } else {
                        left_to_modifier = true;
                    }
                }
            } else if api == Api::IterAt || is_empty_mode {
                set_mode_at(&mut it, site.mode, loc);
                let tag_first = site.tag.is_some() && site.magic % 2 == 1;
                if let (true, Some(t)) = (tag_first, &site.tag) {
                    it.append_tag_at(t.clone(), loc);
                }
                for op in ops {
                    it.add_instr_at(loc, op);
                }
                if let (false, Some(t)) = (tag_first, &site.tag) {
                    it.append_tag_at(t.clone(), loc);
                }
            } else {
                // inject_at uses the function the cursor is in; where in that function the cursor stands
                // (start, somewhere in the middle, on the final `end`) must not matter
                if !walk_to(&mut it, func, 0) {
                    panic!("harness: function not reachable by iterator");
                }
                let n = n_instr;
                let stand = match site.magic.rem_euclid(3) {
                    0 => 0,
                    1 => n.saturating_sub(1),
                    _ => (site.magic as usize / 3) % n.max(1),
                };
                if stand > 0 && !walk_to(&mut it, func, stand as u32) {
                    panic!("harness: position not reachable by iterator");
                }
                let mode = imode(site.mode).unwrap();
                if ops.is_empty() {
                    it.set_instrument_mode_at(mode, loc);
                }
                for op in ops {
                    it.inject_at(site.instr as usize, mode, op);
                }
                if let Some(t) = &site.tag {
                    it.append_tag_at(t.clone(), loc);
                }
            }
            }
            if left_to_modifier {
                let _ = module.functions.get_fn_modifier(FunctionID(func));
            }
        }
        Api::Modifier | Api::ModifierInjectAt => {
            let mut fm = module
                .functions
                .get_fn_modifier(FunctionID(func))
                .expect("harness: not a local function");
            if is_func_mode {
                set_mode_at(&mut fm, site.mode, loc);
                for op in ops {
                    fm.inject(op);
                }
                if let Some(t) = &site.tag {
                    fm.append_tag_at(t.clone(), loc);
                }
                fm.finish_instr();
            } else if api == Api::Modifier || is_empty_mode {
                // a fresh modifier stands at the function's final `end` in mode before: half of the
                // before-sites on that instruction use this default instead of selecting it
                let default_loc =
                    site.mode == Mode::Before && site.tag.is_none() && site.instr as usize + 1 == fm.body.instructions.len() && site.magic % 2 == 0 && !ops.is_empty();
                if !default_loc {
                    set_mode_at(&mut fm, site.mode, loc);
                }
                for op in ops {
                    fm.inject(op);
                }
                if let Some(t) = &site.tag {
                    fm.append_tag_at(t.clone(), loc);
                }
            } else {
                let mode = imode(site.mode).unwrap();
                if ops.is_empty() {
                    fm.set_instrument_mode_at(mode, loc);
                }
                for op in ops {
                    fm.inject_at(site.instr as usize, mode, op);
                }
                if let Some(t) = &site.tag {
                    fm.append_tag_at(t.clone(), loc);
                }
            }
        }
        Api::CompCursor | Api::CompInjectAt => panic!("harness: component API on a module scenario"),
    }
}

fn build_func<'a>(
    params: &[VT],
    results: &[VT],
    locals: &[VT],
    ops: Vec<Operator<'a>>,
    name: &Option<String>,
) -> FunctionBuilder<'a> {
    let p: Vec<_> = params.iter().map(|v| v.data_type()).collect();
    let r: Vec<_> = results.iter().map(|v| v.data_type()).collect();
    let mut fb = FunctionBuilder::new(&p, &r);
    for l in locals {
        fb.add_local(l.data_type());
    }
    // half of the bodies are handed over in one call
    if ops.len() % 2 == 0 {
        fb.inject_all(&ops);
    } else {
        for op in ops {
            fb.inject(op);
        }
    }
    if let Some(n) = name {
        fb.set_name(n.clone());
    }
    fb
}

pub fn make_global(init: &ConstE, ty: VT, mutable: bool) -> Global {
    Global::new(
        GlobalKind::Local(LocalGlobal {
            global_id: GlobalID(0),
            ty: wasmparser::GlobalType {
                content_type: wasmparser::ValType::from(&ty.data_type()),
                mutable,
                shared: false,
            },
            init_expr: init.to_init(),
        }),
        None,
    )
}

/// Apply one op to the real module. Returns what the library returned.
pub fn apply_real<'a>(
    module: &mut Module<'a>,
    op: &Op,
    code: &[Vec<Operator<'a>>],
) -> (Returned, Vec<(usize, PanicInfo)>) {
    let mut rejected = vec![];
    let r = match op {
        Op::AddImportFunc { module: m, name, ty, tag } => {
            let (f, i) = match tag {
                None => module.add_import_func(m.clone(), name.clone(), TypeID(*ty)),
                Some(t) => module.add_import_func_with_tag(m.clone(), name.clone(), TypeID(*ty), Tag::new(t.clone())),
            };
            Returned::IdImp(*f, *i)
        }
        Op::BuildFunc { params, results, locals, name, tag, .. } => {
            let fb = build_func(params, results, locals, code[0].clone(), name);
            let id = match tag {
                None => fb.finish_module(module),
                Some(t) => fb.finish_module_with_tag(module, Tag::new(t.clone())),
            };
            Returned::Id(*id)
        }
        Op::DeleteFunc { id } => {
            module.delete_func(FunctionID(*id));
            Returned::None
        }
        Op::ConvertLocalToImport { id, module: m, name, ty, tag } => {
            let b = match tag {
                None => module.convert_local_fn_to_import(FunctionID(*id), m.clone(), name.clone(), TypeID(*ty)),
                Some(t) => module.convert_local_fn_to_import_with_tag(
                    FunctionID(*id),
                    m.clone(),
                    name.clone(),
                    TypeID(*ty),
                    Tag::new(t.clone()),
                ),
            };
            Returned::Bool(b)
        }
        Op::ReplaceImport { imp, params, results, locals, tag, .. } => {
            let fb = build_func(params, results, locals, code[0].clone(), &None);
            match tag {
                None => fb.replace_import_in_module(module, ImportsID(*imp)),
                Some(t) => fb.replace_import_in_module_with_tag(module, ImportsID(*imp), Tag::new(t.clone())),
            }
            Returned::None
        }
        Op::SetFnName { id, name, via } => {
            match via {
                0 => module.set_fn_name(FunctionID(*id), name.clone()),
                1 => {
                    module.functions.set_local_fn_name(FunctionID(*id), name.clone());
                }
                _ => module.imports.set_fn_name(name.clone(), FunctionID(*id)),
            }
            Returned::None
        }
        Op::ImportsSetName { imp, name } => {
            module.imports.set_name(name.clone(), ImportsID(*imp));
            Returned::None
        }
        Op::AddGlobal { init, ty, mutable, tag } => {
            let id = match tag {
                None => module.add_global(init.to_init(), ty.data_type(), *mutable, false),
                Some(t) => module.add_global_with_tag(init.to_init(), ty.data_type(), *mutable, false, Tag::new(t.clone())),
            };
            Returned::Id(*id)
        }
        Op::AddImportedGlobal { module: m, name, ty, mutable, tag } => {
            let (g, i) = match tag {
                None => module.add_imported_global(m.clone(), name.clone(), ty.data_type(), *mutable, false),
                Some(t) => module.add_imported_global_with_tag(
                    m.clone(),
                    name.clone(),
                    ty.data_type(),
                    *mutable,
                    false,
                    Tag::new(t.clone()),
                ),
            };
            Returned::IdImp(*g, *i)
        }
        Op::IterAddGlobal { init, ty, mutable } => {
            let g = make_global(init, *ty, *mutable);
            let has_local = module.functions.iter().any(|f| matches!(f.kind(), wirm::ir::module::module_functions::FuncKind::Local(_)));
            let id = if has_local {
                let mut it = ModuleIterator::new(module, &vec![]);
                it.add_global(g)
            } else {
                // no local function: an iterator cannot be constructed; not applicable
                return (Returned::None, rejected);
            };
            Returned::Id(*id)
        }
        Op::DeleteGlobal { id } => {
            module.delete_global(GlobalID(*id));
            Returned::None
        }
        Op::ModGlobalInit { id, init } => {
            module.mod_global_init_expr(GlobalID(*id), init.to_init());
            Returned::None
        }
        Op::AddLocalMemory { ty, tag } => {
            let id = match tag {
                None => module.add_local_memory(ty.parser()),
                Some(t) => module.add_local_memory_with_tag(ty.parser(), Tag::new(t.clone())),
            };
            Returned::Id(*id)
        }
        Op::AddImportMemory { module: m, name, ty, tag } => {
            let (g, i) = match tag {
                None => module.add_import_memory(m.clone(), name.clone(), ty.parser()),
                Some(t) => module.add_import_memory_with_tag(m.clone(), name.clone(), ty.parser(), Tag::new(t.clone())),
            };
            Returned::IdImp(*g, *i)
        }
        Op::DeleteMemory { id } => {
            module.delete_memory(MemoryID(*id));
            Returned::None
        }
        Op::AddData { mode, bytes, tag } => {
            let kind = match mode {
                DataMode::Passive => DataSegmentKind::Passive,
                DataMode::Active { mem, offset } => DataSegmentKind::Active {
                    memory_index: *mem,
                    offset_expr: offset.to_init(),
                },
            };
            let id = module.add_data(DataSegment {
                kind,
                data: bytes.clone(),
                tag: tag.clone().map(Tag::new),
            });
            Returned::Id(*id)
        }
        Op::AddExportFunc { name, id, tag } => {
            module.exports.add_export_func(name.clone(), *id, tag.clone().map(Tag::new));
            Returned::None
        }
        Op::AddExportMem { name, id, tag } => {
            module.exports.add_export_mem(name.clone(), *id, tag.clone().map(Tag::new));
            Returned::None
        }
        Op::DeleteExport { exp } => {
            module.exports.delete(ExportsID(*exp));
            Returned::None
        }
        Op::AddType { req, with_params, tag } => {
            let tag = tag.clone().map(Tag::new);
            let id = match (req, with_params) {
                (TypeReq::Func(p, r), None) => {
                    let p: Vec<_> = p.iter().map(|v| v.data_type()).collect();
                    let r: Vec<_> = r.iter().map(|v| v.data_type()).collect();
                    module.types.add_func_type(&p, &r, tag)
                }
                (TypeReq::Func(p, r), Some((s, f, sh))) => {
                    let p: Vec<_> = p.iter().map(|v| v.data_type()).collect();
                    let r: Vec<_> = r.iter().map(|v| v.data_type()).collect();
                    module.types.add_func_type_with_params(&p, &r, s.map(TypeID), *f, *sh, tag)
                }
                (TypeReq::Struct(fl), None) => module.types.add_struct_type(
                    fl.iter().map(|(t, _)| t.data_type()).collect(),
                    fl.iter().map(|(_, m)| *m).collect(),
                    tag,
                ),
                (TypeReq::Struct(fl), Some((s, f, sh))) => module.types.add_struct_type_with_params(
                    fl.iter().map(|(t, _)| t.data_type()).collect(),
                    fl.iter().map(|(_, m)| *m).collect(),
                    s.map(TypeID),
                    *f,
                    *sh,
                    tag,
                ),
                (TypeReq::Array(t, m), None) => module.types.add_array_type(t.data_type(), *m, tag),
                (TypeReq::Array(t, m), Some((s, f, sh))) => {
                    module.types.add_array_type_with_params(t.data_type(), *m, s.map(TypeID), *f, *sh, tag)
                }
            };
            Returned::TypeOneOf(vec![*id])
        }
        Op::CustomAdd { name, data } => {
            let n: &'static str = Box::leak(name.clone().into_boxed_str());
            let id = module.custom_sections.add(CustomSection::new(n, data.clone()));
            Returned::Id(*id)
        }
        Op::CustomDelete { id } => {
            module.custom_sections.delete(CustomSectionID(*id));
            Returned::None
        }
        Op::CustomEdit { id, data } => {
            match module.custom_sections.get_section_data_mut(CustomSectionID(*id)) {
                Some(d) => *d = data.clone(),
                None => panic!("harness: custom section id out of range after precondition"),
            }
            Returned::None
        }
        Op::AddLocal { func, ty, api } => match api {
            LocalApi::Modifier => {
                let mut fm = module.functions.get_fn_modifier(FunctionID(*func)).expect("harness: local");
                Returned::Id(*fm.add_local(ty.data_type()))
            }
            LocalApi::ModifierAddLocals => {
                let mut fm = module.functions.get_fn_modifier(FunctionID(*func)).expect("harness: local");
                fm.add_locals(&[ty.data_type()]);
                Returned::None
            }
            LocalApi::Iterator | LocalApi::CompIterator => {
                let mut it = ModuleIterator::new(module, &vec![]);
                if !walk_to(&mut it, *func, 0) {
                    panic!("harness: function not reachable by iterator");
                }
                Returned::Id(*it.add_local(ty.data_type()))
            }
        },
        Op::Inject { func, api, sites } => {
            for (k, s) in sites.iter().enumerate() {
                let ops = code[k].clone();
                if let Err(p) = guarded(|| inject_site(module, *func, *api, s, ops)) {
                    rejected.push((k, p));
                }
            }
            Returned::None
        }
    };
    (r, rejected)
}

fn lower_op_code(op: &Op, arena: &mut Vec<u8>, ranges: &mut Vec<Vec<(usize, usize)>>) {
    let mut v = vec![];
    let mut add = |ins: &[Ins], arena: &mut Vec<u8>| {
        let s = arena.len();
        encode_ins(ins, arena);
        (s, arena.len())
    };
    match op {
        Op::BuildFunc { body, .. } | Op::ReplaceImport { body, .. } => v.push(add(body, arena)),
        Op::Inject { sites, .. } => {
            for s in sites {
                v.push(add(&s.body, arena))
            }
        }
        _ => {}
    }
    ranges.push(v);
}

pub fn dt_to_vt(d: &wirm::DataType) -> Option<VT> {
    use wirm::DataType as D;
    Some(match d {
        D::I32 => VT::I32,
        D::I64 => VT::I64,
        D::F32 => VT::F32,
        D::F64 => VT::F64,
        D::V128 => VT::V128,
        D::FuncRef | D::FuncRefNull => VT::FuncRef,
        D::ExternRef | D::ExternRefNull => VT::ExternRef,
        D::Any | D::AnyNull => VT::AnyRef,
        _ => return None,
    })
}

fn dts(v: &[wirm::DataType]) -> String {
    format!("{:?}", v.iter().map(|d| dt_to_vt(d).map(|v| format!("{:?}", v)).unwrap_or(format!("{:?}", d))).collect::<Vec<_>>())
}

pub fn render_init(e: &wirm::ir::types::InitExpr) -> Vec<String> {
    use wirm::ir::types::{InitInstr, Value};
    e.instructions()
        .iter()
        .map(|i| match i {
            InitInstr::Value(Value::I32(v)) => format!("i32:{v}"),
            InitInstr::Value(Value::I64(v)) => format!("i64:{v}"),
            InitInstr::Value(Value::F32(v)) => format!("f32:{}", v.to_bits()),
            InitInstr::Value(Value::F64(v)) => format!("f64:{}", v.to_bits()),
            InitInstr::Value(Value::V128(v)) => format!("v128:{v}"),
            InitInstr::Global(g) => format!("global.get:{}", **g),
            InitInstr::RefFunc(f) => format!("ref.func:{}", **f),
            InitInstr::RefNull(_) => "ref.null".to_string(),
            other => format!("{:?}", other),
        })
        .collect()
}

pub fn types_to_subt(t: &wirm::ir::module::module_types::Types) -> Option<SubT> {
    use wirm::ir::module::module_types::Types as T;
    let st = |d: &wirm::DataType| -> Option<ST> {
        Some(match d {
            wirm::DataType::I8 => ST::I8,
            wirm::DataType::I16 => ST::I16,
            d => ST::Val(dt_to_vt(d)?),
        })
    };
    let sup = |p: &Option<wasmparser::PackedIndex>| p.and_then(|p| p.as_module_index());
    Some(match t {
        T::FuncType { params, results, super_type, is_final, shared, .. } => SubT {
            is_final: *is_final,
            supertype: sup(super_type),
            shared: *shared,
            comp: Comp::Func(
                params.iter().map(dt_to_vt).collect::<Option<Vec<_>>>()?,
                results.iter().map(dt_to_vt).collect::<Option<Vec<_>>>()?,
            ),
        },
        T::ArrayType { fields, mutable, super_type, is_final, shared, .. } => SubT {
            is_final: *is_final,
            supertype: sup(super_type),
            shared: *shared,
            comp: Comp::Array(st(fields)?, *mutable),
        },
        T::StructType { fields, mutable, super_type, is_final, shared, .. } => SubT {
            is_final: *is_final,
            supertype: sup(super_type),
            shared: *shared,
            comp: Comp::Struct(fields.iter().zip(mutable.iter()).map(|(f, m)| Some((st(f)?, *m))).collect::<Option<Vec<_>>>()?),
        },
        T::ContType { .. } => return None,
    })
}

pub fn render_types(t: &wirm::ir::module::module_types::Types) -> String {
    use wirm::ir::module::module_types::Types as T;
    let st = |d: &wirm::DataType| match d {
        wirm::DataType::I8 => "I8".to_string(),
        wirm::DataType::I16 => "I16".to_string(),
        d => dt_to_vt(d).map(|v| format!("{:?}", v)).unwrap_or(format!("{:?}", d)),
    };
    match t {
        T::FuncType { params, results, super_type, is_final, shared, .. } => {
            format!("func{}->{} super={:?} final={is_final} shared={shared}", dts(params), dts(results), super_type.and_then(|p| p.as_module_index()))
        }
        T::ArrayType { fields, mutable, super_type, is_final, shared, .. } => {
            format!("array[{} mut={mutable}] super={:?} final={is_final} shared={shared}", st(fields), super_type.and_then(|p| p.as_module_index()))
        }
        T::StructType { fields, mutable, super_type, is_final, shared, .. } => format!(
            "struct{:?} super={:?} final={is_final} shared={shared}",
            fields.iter().zip(mutable.iter()).map(|(f, m)| format!("{} mut={m}", st(f))).collect::<Vec<_>>(),
            super_type.and_then(|p| p.as_module_index())
        ),
        T::ContType { .. } => "cont".to_string(),
    }
}

fn render_fx(fx: &wirm::ir::module::side_effects::Injection) -> SideFx {
    use wirm::ir::module::side_effects::Injection as I;
    let ins_of = |b: &Vec<Operator>| -> Vec<Ins> { b.iter().map(Ins::from_op).collect() };
    let mk = |kind: &str, tag: &Tag, key: String, content: String, body: Vec<String>, body_ins: Vec<Ins>, target| SideFx {
        kind: kind.into(),
        tag: tag.data().clone(),
        key,
        content,
        body,
        body_ins,
        target,
    };
    match fx {
        I::Import { module, name, type_ref, tag } => mk(
            "import",
            tag,
            format!("{module}/{name}"),
            match type_ref {
                wasmparser::TypeRef::Func(_) => "func",
                wasmparser::TypeRef::Global(_) => "global",
                wasmparser::TypeRef::Memory(_) => "memory",
                wasmparser::TypeRef::Table(_) => "table",
                wasmparser::TypeRef::Tag(_) => "tag",
            }
            .to_string(),
            vec![],
            vec![],
            None,
        ),
        I::Export { name, kind, index, tag } => mk(
            "export",
            tag,
            name.clone(),
            format!("{:?}/{index}", ExtKind::from_parser(*kind)),
            vec![],
            vec![],
            None,
        ),
        I::Type { ty, tag } => mk(
            "type",
            tag,
            String::new(),
            types_to_subt(ty).map(|t| format!("{:?}", t)).unwrap_or_else(|| render_types(ty)),
            vec![],
            vec![],
            None,
        ),
        I::Memory { id, initial, maximum, tag } => mk("memory", tag, format!("{id}"), format!("{initial}/{:?}", maximum), vec![], vec![], None),
        I::PassiveData { data, tag } => mk("data", tag, String::new(), format!("passive/{:?}", data), vec![], vec![], None),
        I::ActiveData { memory_index, offset_expr, data, tag } => mk(
            "data",
            tag,
            String::new(),
            format!("active/{memory_index}/{:?}", data),
            render_init(offset_expr),
            vec![],
            None,
        ),
        I::Global { id, ty, shared: _, mutable, init_expr, tag } => mk(
            "global",
            tag,
            format!("{id}"),
            format!("{}/{mutable}", dt_to_vt(ty).map(|v| format!("{:?}", v)).unwrap_or(format!("{:?}", ty))),
            render_init(init_expr),
            vec![],
            None,
        ),
        I::Func { id, fname, sig, locals, body, tag } => mk(
            "func",
            tag,
            format!("{id}"),
            format!("{:?}/{}->{}/{}", fname, dts(&sig.0), dts(&sig.1), dts(locals)),
            vec![],
            body.iter().map(|i| Ins::from_op(&i.op)).collect(),
            None,
        ),
        I::Local { target_fid, ty, tag } => mk("local", tag, format!("{target_fid}"), format!("{:?}", ty), vec![], vec![], None),
        I::Table { tag } => mk("table", tag, String::new(), String::new(), vec![], vec![], None),
        I::Element { tag } => mk("element", tag, String::new(), String::new(), vec![], vec![], None),
        I::FuncProbe { target_fid, mode, body, tag } => mk(
            "func_probe",
            tag,
            String::new(),
            String::new(),
            vec![],
            ins_of(body),
            Some((*target_fid, None, format!("{:?}", mode))),
        ),
        I::FuncLocProbe { target_fid, target_opcode_idx, mode, body, tag } => mk(
            "loc_probe",
            tag,
            String::new(),
            String::new(),
            vec![],
            ins_of(body),
            Some((*target_fid, Some(*target_opcode_idx), format!("{:?}", mode))),
        ),
    }
}

static TMP_COUNTER: std::sync::atomic::AtomicU64 = std::sync::atomic::AtomicU64::new(0);

/// Read-only getters used as an invariant after every op.
fn check_invariants(module: &Module, model: &Model) -> Option<String> {
    use wirm::ir::module::module_functions::FuncKind;
    let n = model.funcs.len();
    if module.functions.iter().count() != n {
        return Some(format!("functions.len {} vs model {}", module.functions.iter().count(), n));
    }
    for (i, f) in model.funcs.iter().enumerate() {
        let id = FunctionID(i as u32);
        if module.functions.is_deleted(id) != f.deleted {
            return Some(format!("functions.is_deleted({i}) = {} vs model {}", !f.deleted, f.deleted));
        }
        if f.deleted {
            continue;
        }
        let is_local = matches!(module.functions.get_kind(id), FuncKind::Local(_));
        if is_local != matches!(f.kind, MFK::Local(_)) {
            return Some(format!("functions.get_kind({i}) local={} vs model", is_local));
        }
        if module.functions.is_local(id) != is_local || module.functions.is_import(id) == is_local {
            return Some(format!("is_local/is_import({i}) inconsistent"));
        }
    }
    if module.globals.len() != model.globals.len() {
        return Some(format!("globals.len {} vs model {}", module.globals.len(), model.globals.len()));
    }
    if module.imports.len() != model.imports.len() {
        return Some(format!("imports.len {} vs model {}", module.imports.len(), model.imports.len()));
    }
    if module.custom_sections.len() != model.customs.len() {
        return Some(format!("custom_sections.len {} vs model {}", module.custom_sections.len(), model.customs.len()));
    }
    if module.data.len() != model.data.len() {
        return Some(format!("data.len {} vs model {}", module.data.len(), model.data.len()));
    }
    None
}

pub fn run(sc: &Scenario) -> RunResult {
    let base_bytes = sc.base.to_bytes();
    run_bytes(sc, &base_bytes)
}

pub fn run_bytes(sc: &Scenario, base_bytes: &[u8]) -> RunResult {
    LOGS.with(|l| l.borrow_mut().clear());
    crate::hseam::set_hash_seed(sc.hash_seed);
    let flat = sc.flat_ops();
    let mut arena = vec![];
    let mut ranges = vec![];
    for (_, op) in &flat {
        lower_op_code(op, &mut arena, &mut ranges);
    }
    let mut model = Model::new(&sc.base);
    let mut res = RunResult {
        tag_residue: false,
        parse_err: None,
        outcomes: vec![],
        tails: vec![],
        model: model.clone(),
        logs: vec![],
        ops_applied: 0,
        hash_maps: 0,
        invariant_failures: vec![],
        first_panic: None,
        walks: vec![],
    };
    let parsed = guarded(|| Module::parse(base_bytes, sc.multi_memory));
    let mut module = match parsed {
        Ok(Ok(m)) => m,
        Ok(Err(e)) => {
            res.parse_err = Some(format!("error: {e}"));
            return res;
        }
        Err(p) => {
            res.parse_err = Some(format!("panic: {}", p.sig()));
            return res;
        }
    };
    let mut aborted = false;
    for (k, (client, op)) in flat.iter().enumerate() {
        if aborted || !model.precond(op) {
            res.outcomes.push((*client, op.kind().into(), OpOutcome::Skipped));
            continue;
        }
        let code: Vec<Vec<Operator>> = ranges[k].iter().map(|(s, e)| read_ops(&arena[*s..*e])).collect();
        let expected = model.clone().apply(op);
        let r = guarded(|| apply_real(&mut module, op, &code));
        match r {
            Err(p) => {
                if res.first_panic.is_none() {
                    res.first_panic = Some((k, op.kind().into(), p.clone()));
                }
                res.outcomes.push((*client, op.kind().into(), OpOutcome::Panicked(p)));
                aborted = true; // module state is unknown after a panic inside a mutation
                continue;
            }
            Ok((got, rejected)) => {
                // sites the library rejected are removed from the model's version of the op
                let op_eff: Op = match (op, rejected.is_empty()) {
                    (Op::Inject { func, api, sites }, false) => Op::Inject {
                        func: *func,
                        api: *api,
                        sites: sites
                            .iter()
                            .enumerate()
                            .filter(|(i, _)| !rejected.iter().any(|(j, _)| j == i))
                            .map(|(_, s)| s.clone())
                            .collect(),
                    },
                    _ => (*op).clone(),
                };
                // a rejected site whose tag had been attached BEFORE its body: attaching the tag created an
                // (empty) request that the rejection of the body leaves behind
                if let Op::Inject { sites, .. } = op {
                    if rejected.iter().any(|(j, _)| sites.get(*j).map_or(false, |s| s.tag.is_some() && s.magic % 2 == 1)) {
                        res.tag_residue = true;
                    }
                }
                model.apply(&op_eff);
                res.ops_applied += 1;
                let ok = match (&expected, &got) {
                    (Returned::TypeOneOf(a), Returned::TypeOneOf(b)) => a.contains(&b[0]),
                    (_, Returned::None) => true, // API returns nothing (add_locals, n/a paths)
                    (a, b) => a == b,
                };
                if !ok {
                    res.outcomes.push((
                        *client,
                        op.kind().into(),
                        OpOutcome::ReturnMismatch {
                            expected: format!("{:?}", expected),
                            got: format!("{:?}", got),
                        },
                    ));
                } else if !rejected.is_empty() {
                    res.outcomes.push((*client, op.kind().into(), OpOutcome::SiteRejected(rejected)));
                } else {
                    res.outcomes.push((*client, op.kind().into(), OpOutcome::Ok));
                }
                if let Ok(Some(f)) = guarded(|| check_invariants(&module, &model)) {
                    res.invariant_failures.push((k, f));
                }
            }
        }
    }
    // iterator walks are observed before the first encoding (encoding re-organises the index
    // spaces; using pre-encode IDs afterwards is outside what the library promises)
    if let (Some(plan), false) = (&sc.walk, aborted) {
        let expected = expected_walk(&model, plan);
        res.walks = do_walks(&mut module, plan, expected.is_empty());
    }
    if !aborted {
        for t in &sc.tail {
            let out = match t {
                Tail::Encode => match guarded(|| module.encode()) {
                    Ok(b) => TailOutcome::Bytes(b),
                    Err(p) => TailOutcome::Panicked(p),
                },
                Tail::EmitOk => {
                    let n = TMP_COUNTER.fetch_add(1, std::sync::atomic::Ordering::Relaxed);
                    let path = format!("/verif/target/tmp/emit-{}-{}.wasm", std::process::id(), n);
                    match guarded(|| module.emit_wasm(&path)) {
                        Ok(Ok(())) => {
                            let b = std::fs::read(&path).unwrap_or_default();
                            let _ = std::fs::remove_file(&path);
                            TailOutcome::Bytes(b)
                        }
                        Ok(Err(e)) => TailOutcome::EmitErr(format!("unexpected: {e}")),
                        Err(p) => TailOutcome::Panicked(p),
                    }
                }
                Tail::EmitFail(k) => match guarded(|| module.emit_wasm(k.path())) {
                    Ok(Ok(())) => TailOutcome::EmitUnexpectedOk,
                    Ok(Err(e)) => TailOutcome::EmitErr(format!("{:?}", e.kind())),
                    Err(p) => TailOutcome::Panicked(p),
                },
                Tail::PullSideEffects => match guarded(|| {
                    let fx = module.pull_side_effects();
                    let mut v = vec![];
                    for (_, list) in fx.iter() {
                        for f in list {
                            v.push(render_fx(f));
                        }
                    }
                    v.sort();
                    v
                }) {
                    Ok(v) => TailOutcome::SideFx(v),
                    Err(p) => TailOutcome::Panicked(p),
                },
            };
            let stop = matches!(out, TailOutcome::Panicked(_));
            res.tails.push(out);
            if stop {
                break;
            }
        }
    }
    res.hash_maps = crate::hseam::hash_maps_created();
    res.logs = LOGS.with(|l| l.borrow().clone());
    res.model = model;
    res
}
