//! The simulator's own instruction form. One enum, three conversions:
//!  * `Ins -> wasm_encoder::Instruction` (lowering generated modules and injected code to bytes),
//!  * bytes -> `wasmparser::Operator` (what is handed to the library's injection API),
//!  * `wasmparser::Operator -> Ins` (decoding the library's output for the oracle).
//! Entity references (function/global/memory indices) are plain `u32`s: in a base module they are
//! indices of the base index space, in injected code they are the IDs the client holds, and in a
//! decoded output they are output indices (mapped to fingerprints by the oracle).
use serde::{Deserialize, Serialize};
use wasmparser::Operator;

#[derive(Clone, Copy, Debug, PartialEq, Eq, Hash, Serialize, Deserialize, PartialOrd, Ord)]
pub enum VT {
    I32,
    I64,
    F32,
    F64,
    V128,
    FuncRef,
    ExternRef,
    /// `anyref`: only as the type of an immutable global holding a GC struct (its initialiser has
    /// several references); never a parameter, local or operand of generated code
    AnyRef,
}

impl VT {
    pub fn enc(self) -> wasm_encoder::ValType {
        use wasm_encoder::ValType as E;
        match self {
            VT::I32 => E::I32,
            VT::I64 => E::I64,
            VT::F32 => E::F32,
            VT::F64 => E::F64,
            VT::V128 => E::V128,
            VT::FuncRef => E::Ref(wasm_encoder::RefType::FUNCREF),
            VT::ExternRef => E::Ref(wasm_encoder::RefType::EXTERNREF),
            VT::AnyRef => E::Ref(wasm_encoder::RefType::ANYREF),
        }
    }
    pub fn from_parser(v: wasmparser::ValType) -> Option<VT> {
        use wasmparser::ValType as P;
        Some(match v {
            P::I32 => VT::I32,
            P::I64 => VT::I64,
            P::F32 => VT::F32,
            P::F64 => VT::F64,
            P::V128 => VT::V128,
            P::Ref(r) if r == wasmparser::RefType::FUNCREF => VT::FuncRef,
            P::Ref(r) if r == wasmparser::RefType::EXTERNREF => VT::ExternRef,
            P::Ref(r) if r == wasmparser::RefType::ANYREF => VT::AnyRef,
            _ => return None,
        })
    }
    pub fn data_type(self) -> wirm::DataType {
        use wirm::DataType as D;
        match self {
            VT::I32 => D::I32,
            VT::I64 => D::I64,
            VT::F32 => D::F32,
            VT::F64 => D::F64,
            VT::V128 => D::V128,
            VT::FuncRef => D::FuncRefNull,
            VT::ExternRef => D::ExternRefNull,
            VT::AnyRef => D::AnyNull,
        }
    }
    /// the instruction pushing this type's default value
    pub fn default_ins(self) -> Ins {
        match self {
            VT::I32 => Ins::I32Const(0),
            VT::I64 => Ins::I64Const(0),
            VT::F32 => Ins::F32Const(0),
            VT::F64 => Ins::F64Const(0),
            VT::V128 => Ins::V128Const(0),
            VT::FuncRef => Ins::RefNull(true),
            VT::ExternRef => Ins::RefNull(false),
            VT::AnyRef => panic!("harness: anyref has no default instruction in generated code"),
        }
    }
    pub const NUMS: [VT; 4] = [VT::I32, VT::I64, VT::F32, VT::F64];
    pub const ALL: [VT; 7] = [
        VT::I32,
        VT::I64,
        VT::F32,
        VT::F64,
        VT::V128,
        VT::FuncRef,
        VT::ExternRef,
    ];
}

#[derive(Clone, Copy, Debug, PartialEq, Eq, Hash, Serialize, Deserialize, PartialOrd, Ord)]
pub enum BT {
    Empty,
    Val(VT),
    Func(u32),
}

impl BT {
    pub fn enc(self) -> wasm_encoder::BlockType {
        match self {
            BT::Empty => wasm_encoder::BlockType::Empty,
            BT::Val(v) => wasm_encoder::BlockType::Result(v.enc()),
            BT::Func(i) => wasm_encoder::BlockType::FunctionType(i),
        }
    }
    pub fn from_parser(b: wasmparser::BlockType) -> Option<BT> {
        Some(match b {
            wasmparser::BlockType::Empty => BT::Empty,
            wasmparser::BlockType::Type(v) => BT::Val(VT::from_parser(v)?),
            wasmparser::BlockType::FuncType(i) => BT::Func(i),
        })
    }
}

#[derive(Clone, Copy, Debug, PartialEq, Eq, Hash, Serialize, Deserialize, PartialOrd, Ord)]
pub struct MA {
    pub mem: u32,
    pub offset: u64,
    pub align: u8,
}

impl MA {
    fn enc(self) -> wasm_encoder::MemArg {
        wasm_encoder::MemArg {
            offset: self.offset,
            align: self.align as u32,
            memory_index: self.mem,
        }
    }
    fn from_parser(m: &wasmparser::MemArg) -> MA {
        MA {
            mem: m.memory,
            offset: m.offset,
            align: m.align,
        }
    }
}

macro_rules! simple_ops {
    ($($name:ident),* $(,)?) => {
        #[derive(Clone, Copy, Debug, PartialEq, Eq, Hash, Serialize, Deserialize, PartialOrd, Ord)]
        pub enum Simple { $($name),* }
        impl Simple {
            pub const ALL: &'static [Simple] = &[$(Simple::$name),*];
            pub fn enc(self) -> wasm_encoder::Instruction<'static> {
                match self { $(Simple::$name => wasm_encoder::Instruction::$name),* }
            }
            pub fn from_op(op: &Operator) -> Option<Simple> {
                match op { $(Operator::$name => Some(Simple::$name),)* _ => None }
            }
        }
    };
}

simple_ops!(
    I32Eqz, I32Eq, I32Ne, I32LtS, I32LtU, I32GtS, I32GtU, I32LeS, I32LeU, I32GeS, I32GeU, I64Eqz,
    I64Eq, I64Ne, I64LtS, I64LtU, I64GtS, I64GtU, I64LeS, I64LeU, I64GeS, I64GeU, I32Clz, I32Ctz,
    I32Popcnt, I32Add, I32Sub, I32Mul, I32DivS, I32DivU, I32RemS, I32RemU, I32And, I32Or, I32Xor,
    I32Shl, I32ShrS, I32ShrU, I32Rotl, I32Rotr, I64Clz, I64Ctz, I64Popcnt, I64Add, I64Sub, I64Mul,
    I64DivS, I64DivU, I64RemS, I64RemU, I64And, I64Or, I64Xor, I64Shl, I64ShrS, I64ShrU, I64Rotl,
    I64Rotr, I32WrapI64, I64ExtendI32S, I64ExtendI32U, I32Extend8S, I32Extend16S, I64Extend8S,
    I64Extend16S, I64Extend32S, F32Add, F64Add, F32Neg, F64Neg, RefIsNull
);

/// Stack shape of a memarg instruction (address operand excluded).
#[derive(Clone, Copy, Debug, PartialEq, Eq)]
pub enum MemShape {
    Load(VT),
    Store(VT),
    Rmw(VT),
    Cmpxchg(VT),
    Notify,
    Wait32,
    Wait64,
}

macro_rules! mem_ops {
    ($($name:ident => ($shape:expr, $align:expr, $atomic:expr)),* $(,)?) => {
        #[derive(Clone, Copy, Debug, PartialEq, Eq, Hash, Serialize, Deserialize, PartialOrd, Ord)]
        pub enum MemOp { $($name),* }
        impl MemOp {
            pub const ALL: &'static [MemOp] = &[$(MemOp::$name),*];
            pub fn enc(self, m: MA) -> wasm_encoder::Instruction<'static> {
                match self { $(MemOp::$name => wasm_encoder::Instruction::$name(m.enc())),* }
            }
            pub fn from_op(op: &Operator) -> Option<(MemOp, MA)> {
                match op { $(Operator::$name { memarg } => Some((MemOp::$name, MA::from_parser(memarg))),)* _ => None }
            }
            /// (stack shape, natural alignment log2, is atomic)
            pub fn info(self) -> (MemShape, u8, bool) {
                match self { $(MemOp::$name => ($shape, $align, $atomic)),* }
            }
        }
    };
}

use MemShape::*;
mem_ops!(
    I32Load => (Load(VT::I32), 2, false), I64Load => (Load(VT::I64), 3, false),
    F32Load => (Load(VT::F32), 2, false), F64Load => (Load(VT::F64), 3, false),
    I32Load8S => (Load(VT::I32), 0, false), I32Load8U => (Load(VT::I32), 0, false),
    I32Load16S => (Load(VT::I32), 1, false), I32Load16U => (Load(VT::I32), 1, false),
    I64Load8S => (Load(VT::I64), 0, false), I64Load8U => (Load(VT::I64), 0, false),
    I64Load16S => (Load(VT::I64), 1, false), I64Load16U => (Load(VT::I64), 1, false),
    I64Load32S => (Load(VT::I64), 2, false), I64Load32U => (Load(VT::I64), 2, false),
    I32Store => (Store(VT::I32), 2, false), I64Store => (Store(VT::I64), 3, false),
    F32Store => (Store(VT::F32), 2, false), F64Store => (Store(VT::F64), 3, false),
    I32Store8 => (Store(VT::I32), 0, false), I32Store16 => (Store(VT::I32), 1, false),
    I64Store8 => (Store(VT::I64), 0, false), I64Store16 => (Store(VT::I64), 1, false),
    I64Store32 => (Store(VT::I64), 2, false),
    // SIMD
    V128Load => (Load(VT::V128), 4, false), V128Store => (Store(VT::V128), 4, false),
    V128Load8x8S => (Load(VT::V128), 3, false), V128Load8x8U => (Load(VT::V128), 3, false),
    V128Load16x4S => (Load(VT::V128), 3, false), V128Load16x4U => (Load(VT::V128), 3, false),
    V128Load32x2S => (Load(VT::V128), 3, false), V128Load32x2U => (Load(VT::V128), 3, false),
    V128Load8Splat => (Load(VT::V128), 0, false), V128Load16Splat => (Load(VT::V128), 1, false),
    V128Load32Splat => (Load(VT::V128), 2, false), V128Load64Splat => (Load(VT::V128), 3, false),
    V128Load32Zero => (Load(VT::V128), 2, false), V128Load64Zero => (Load(VT::V128), 3, false),
    // threads
    MemoryAtomicNotify => (Notify, 2, true), MemoryAtomicWait32 => (Wait32, 2, true),
    MemoryAtomicWait64 => (Wait64, 3, true),
    I32AtomicLoad => (Load(VT::I32), 2, true), I64AtomicLoad => (Load(VT::I64), 3, true),
    I32AtomicLoad8U => (Load(VT::I32), 0, true), I32AtomicLoad16U => (Load(VT::I32), 1, true),
    I64AtomicLoad8U => (Load(VT::I64), 0, true), I64AtomicLoad16U => (Load(VT::I64), 1, true),
    I64AtomicLoad32U => (Load(VT::I64), 2, true),
    I32AtomicStore => (Store(VT::I32), 2, true), I64AtomicStore => (Store(VT::I64), 3, true),
    I32AtomicStore8 => (Store(VT::I32), 0, true), I32AtomicStore16 => (Store(VT::I32), 1, true),
    I64AtomicStore8 => (Store(VT::I64), 0, true), I64AtomicStore16 => (Store(VT::I64), 1, true),
    I64AtomicStore32 => (Store(VT::I64), 2, true),
    I32AtomicRmwAdd => (Rmw(VT::I32), 2, true), I64AtomicRmwAdd => (Rmw(VT::I64), 3, true),
    I32AtomicRmw8AddU => (Rmw(VT::I32), 0, true), I32AtomicRmw16AddU => (Rmw(VT::I32), 1, true),
    I64AtomicRmw8AddU => (Rmw(VT::I64), 0, true), I64AtomicRmw16AddU => (Rmw(VT::I64), 1, true),
    I64AtomicRmw32AddU => (Rmw(VT::I64), 2, true),
    I32AtomicRmwSub => (Rmw(VT::I32), 2, true), I64AtomicRmwSub => (Rmw(VT::I64), 3, true),
    I32AtomicRmw8SubU => (Rmw(VT::I32), 0, true), I32AtomicRmw16SubU => (Rmw(VT::I32), 1, true),
    I64AtomicRmw8SubU => (Rmw(VT::I64), 0, true), I64AtomicRmw16SubU => (Rmw(VT::I64), 1, true),
    I64AtomicRmw32SubU => (Rmw(VT::I64), 2, true),
    I32AtomicRmwAnd => (Rmw(VT::I32), 2, true), I64AtomicRmwAnd => (Rmw(VT::I64), 3, true),
    I32AtomicRmw8AndU => (Rmw(VT::I32), 0, true), I32AtomicRmw16AndU => (Rmw(VT::I32), 1, true),
    I64AtomicRmw8AndU => (Rmw(VT::I64), 0, true), I64AtomicRmw16AndU => (Rmw(VT::I64), 1, true),
    I64AtomicRmw32AndU => (Rmw(VT::I64), 2, true),
    I32AtomicRmwOr => (Rmw(VT::I32), 2, true), I64AtomicRmwOr => (Rmw(VT::I64), 3, true),
    I32AtomicRmw8OrU => (Rmw(VT::I32), 0, true), I32AtomicRmw16OrU => (Rmw(VT::I32), 1, true),
    I64AtomicRmw8OrU => (Rmw(VT::I64), 0, true), I64AtomicRmw16OrU => (Rmw(VT::I64), 1, true),
    I64AtomicRmw32OrU => (Rmw(VT::I64), 2, true),
    I32AtomicRmwXor => (Rmw(VT::I32), 2, true), I64AtomicRmwXor => (Rmw(VT::I64), 3, true),
    I32AtomicRmw8XorU => (Rmw(VT::I32), 0, true), I32AtomicRmw16XorU => (Rmw(VT::I32), 1, true),
    I64AtomicRmw8XorU => (Rmw(VT::I64), 0, true), I64AtomicRmw16XorU => (Rmw(VT::I64), 1, true),
    I64AtomicRmw32XorU => (Rmw(VT::I64), 2, true),
    I32AtomicRmwXchg => (Rmw(VT::I32), 2, true), I64AtomicRmwXchg => (Rmw(VT::I64), 3, true),
    I32AtomicRmw8XchgU => (Rmw(VT::I32), 0, true), I32AtomicRmw16XchgU => (Rmw(VT::I32), 1, true),
    I64AtomicRmw8XchgU => (Rmw(VT::I64), 0, true), I64AtomicRmw16XchgU => (Rmw(VT::I64), 1, true),
    I64AtomicRmw32XchgU => (Rmw(VT::I64), 2, true),
    I32AtomicRmwCmpxchg => (Cmpxchg(VT::I32), 2, true), I64AtomicRmwCmpxchg => (Cmpxchg(VT::I64), 3, true),
    I32AtomicRmw8CmpxchgU => (Cmpxchg(VT::I32), 0, true), I32AtomicRmw16CmpxchgU => (Cmpxchg(VT::I32), 1, true),
    I64AtomicRmw8CmpxchgU => (Cmpxchg(VT::I64), 0, true), I64AtomicRmw16CmpxchgU => (Cmpxchg(VT::I64), 1, true),
    I64AtomicRmw32CmpxchgU => (Cmpxchg(VT::I64), 2, true),
);

macro_rules! lane_ops {
    ($($name:ident => ($store:expr, $align:expr, $lanes:expr)),* $(,)?) => {
        #[derive(Clone, Copy, Debug, PartialEq, Eq, Hash, Serialize, Deserialize, PartialOrd, Ord)]
        pub enum LaneOp { $($name),* }
        impl LaneOp {
            pub const ALL: &'static [LaneOp] = &[$(LaneOp::$name),*];
            pub fn enc(self, m: MA, lane: u8) -> wasm_encoder::Instruction<'static> {
                match self { $(LaneOp::$name => wasm_encoder::Instruction::$name { memarg: m.enc(), lane }),* }
            }
            pub fn from_op(op: &Operator) -> Option<(LaneOp, MA, u8)> {
                match op { $(Operator::$name { memarg, lane } => Some((LaneOp::$name, MA::from_parser(memarg), *lane)),)* _ => None }
            }
            /// (is store, natural alignment log2, number of lanes)
            pub fn info(self) -> (bool, u8, u8) {
                match self { $(LaneOp::$name => ($store, $align, $lanes)),* }
            }
        }
    };
}
lane_ops!(
    V128Load8Lane => (false, 0, 16), V128Load16Lane => (false, 1, 8),
    V128Load32Lane => (false, 2, 4), V128Load64Lane => (false, 3, 2),
    V128Store8Lane => (true, 0, 16), V128Store16Lane => (true, 1, 8),
    V128Store32Lane => (true, 2, 4), V128Store64Lane => (true, 3, 2),
);

#[derive(Clone, Debug, PartialEq, Eq, Hash, Serialize, Deserialize, PartialOrd, Ord)]
pub enum Ins {
    Unreachable,
    /// `throw $tag` (only generated for executed programs, never caught)
    Throw(u32),
    Nop,
    Drop,
    Select,
    Return,
    Block(BT),
    Loop(BT),
    If(BT),
    /// `try_table` with `catch <tag> <label>` (Some(tag)) / `catch_all <label>` (None) clauses;
    /// only generated for executed programs
    TryTable(BT, Vec<(Option<u32>, u32)>),
    Else,
    End,
    Br(u32),
    BrIf(u32),
    BrTable(Vec<u32>, u32),
    /// function-references / GC branches, restricted to the abstract `func` heap type
    BrOnNull(u32),
    BrOnNonNull(u32),
    /// (depth, source type nullable, target type nullable)
    BrOnCast(u32, bool, bool),
    BrOnCastFail(u32, bool, bool),
    Call(u32),
    ReturnCall(u32),
    RefFunc(u32),
    LocalGet(u32),
    LocalSet(u32),
    LocalTee(u32),
    GlobalGet(u32),
    GlobalSet(u32),
    /// shared-everything-threads `global.atomic.*` (kind 0 get, 1 set, 2 add, 3 sub, 4 and, 5 or,
    /// 6 xor, 7 xchg, 8 cmpxchg; acq_rel ordering flag; global)
    GlobalAtomic(u8, bool, u32),
    I32Const(i32),
    I64Const(i64),
    F32Const(u32),
    F64Const(u64),
    V128Const(u128),
    /// true = func, false = extern
    RefNull(bool),
    S(Simple),
    Mem(MemOp, MA),
    Lane(LaneOp, MA, u8),
    MemorySize(u32),
    MemoryGrow(u32),
    MemoryFill(u32),
    MemoryCopy { dst: u32, src: u32 },
    MemoryInit { data: u32, mem: u32 },
    DataDrop(u32),
    Unknown(String),
}

fn acq(o: &wasmparser::Ordering) -> bool {
    matches!(o, wasmparser::Ordering::AcqRel)
}

impl Ins {
    pub fn enc(&self) -> wasm_encoder::Instruction<'static> {
        use wasm_encoder::Instruction as E;
        match self {
            Ins::Unreachable => E::Unreachable,
            Ins::Throw(t) => E::Throw(*t),
            Ins::Nop => E::Nop,
            Ins::Drop => E::Drop,
            Ins::Select => E::Select,
            Ins::Return => E::Return,
            Ins::Block(b) => E::Block(b.enc()),
            Ins::Loop(b) => E::Loop(b.enc()),
            Ins::If(b) => E::If(b.enc()),
            Ins::TryTable(b, cs) => E::TryTable(
                b.enc(),
                std::borrow::Cow::Owned(
                    cs.iter()
                        .map(|(t, l)| match t {
                            Some(t) => wasm_encoder::Catch::One { tag: *t, label: *l },
                            None => wasm_encoder::Catch::All { label: *l },
                        })
                        .collect(),
                ),
            ),
            Ins::Else => E::Else,
            Ins::End => E::End,
            Ins::Br(d) => E::Br(*d),
            Ins::BrIf(d) => E::BrIf(*d),
            Ins::BrTable(t, d) => E::BrTable(std::borrow::Cow::Owned(t.clone()), *d),
            Ins::BrOnNull(d) => E::BrOnNull(*d),
            Ins::BrOnNonNull(d) => E::BrOnNonNull(*d),
            Ins::BrOnCast(d, f, t) => E::BrOnCast {
                relative_depth: *d,
                from_ref_type: func_ref_type(*f),
                to_ref_type: func_ref_type(*t),
            },
            Ins::BrOnCastFail(d, f, t) => E::BrOnCastFail {
                relative_depth: *d,
                from_ref_type: func_ref_type(*f),
                to_ref_type: func_ref_type(*t),
            },
            Ins::Call(f) => E::Call(*f),
            Ins::ReturnCall(f) => E::ReturnCall(*f),
            Ins::RefFunc(f) => E::RefFunc(*f),
            Ins::LocalGet(l) => E::LocalGet(*l),
            Ins::LocalSet(l) => E::LocalSet(*l),
            Ins::LocalTee(l) => E::LocalTee(*l),
            Ins::GlobalGet(g) => E::GlobalGet(*g),
            Ins::GlobalSet(g) => E::GlobalSet(*g),
            Ins::GlobalAtomic(k, acq, g) => {
                let ordering = if *acq { wasm_encoder::Ordering::AcqRel } else { wasm_encoder::Ordering::SeqCst };
                let global_index = *g;
                match k {
                    0 => E::GlobalAtomicGet { ordering, global_index },
                    1 => E::GlobalAtomicSet { ordering, global_index },
                    2 => E::GlobalAtomicRmwAdd { ordering, global_index },
                    3 => E::GlobalAtomicRmwSub { ordering, global_index },
                    4 => E::GlobalAtomicRmwAnd { ordering, global_index },
                    5 => E::GlobalAtomicRmwOr { ordering, global_index },
                    6 => E::GlobalAtomicRmwXor { ordering, global_index },
                    7 => E::GlobalAtomicRmwXchg { ordering, global_index },
                    _ => E::GlobalAtomicRmwCmpxchg { ordering, global_index },
                }
            }
            Ins::I32Const(v) => E::I32Const(*v),
            Ins::I64Const(v) => E::I64Const(*v),
            Ins::F32Const(v) => E::F32Const(wasm_encoder::Ieee32::from(f32::from_bits(*v))),
            Ins::F64Const(v) => E::F64Const(wasm_encoder::Ieee64::from(f64::from_bits(*v))),
            Ins::V128Const(v) => E::V128Const(*v as i128),
            Ins::RefNull(func) => E::RefNull(if *func {
                wasm_encoder::HeapType::FUNC
            } else {
                wasm_encoder::HeapType::EXTERN
            }),
            Ins::S(s) => s.enc(),
            Ins::Mem(op, m) => op.enc(*m),
            Ins::Lane(op, m, l) => op.enc(*m, *l),
            Ins::MemorySize(m) => E::MemorySize(*m),
            Ins::MemoryGrow(m) => E::MemoryGrow(*m),
            Ins::MemoryFill(m) => E::MemoryFill(*m),
            Ins::MemoryCopy { dst, src } => E::MemoryCopy {
                src_mem: *src,
                dst_mem: *dst,
            },
            Ins::MemoryInit { data, mem } => E::MemoryInit {
                mem: *mem,
                data_index: *data,
            },
            Ins::DataDrop(d) => E::DataDrop(*d),
            Ins::Unknown(s) => panic!("harness: cannot lower Unknown({s})"),
        }
    }

    pub fn from_op(op: &Operator) -> Ins {
        if let Some(s) = Simple::from_op(op) {
            return Ins::S(s);
        }
        if let Some((m, a)) = MemOp::from_op(op) {
            return Ins::Mem(m, a);
        }
        if let Some((m, a, l)) = LaneOp::from_op(op) {
            return Ins::Lane(m, a, l);
        }
        let unk = || Ins::Unknown(format!("{:?}", op));
        match op {
            Operator::Unreachable => Ins::Unreachable,
            Operator::Throw { tag_index } => Ins::Throw(*tag_index),
            Operator::TryTable { try_table } => {
                let mut cs = vec![];
                for c in &try_table.catches {
                    match c {
                        wasmparser::Catch::One { tag, label } => cs.push((Some(*tag), *label)),
                        wasmparser::Catch::All { label } => cs.push((None, *label)),
                        _ => return unk(),
                    }
                }
                match BT::from_parser(try_table.ty) {
                    Some(b) => Ins::TryTable(b, cs),
                    None => unk(),
                }
            }
            Operator::Nop => Ins::Nop,
            Operator::Drop => Ins::Drop,
            Operator::Select => Ins::Select,
            Operator::Return => Ins::Return,
            Operator::Block { blockty } => BT::from_parser(*blockty).map(Ins::Block).unwrap_or_else(unk),
            Operator::Loop { blockty } => BT::from_parser(*blockty).map(Ins::Loop).unwrap_or_else(unk),
            Operator::If { blockty } => BT::from_parser(*blockty).map(Ins::If).unwrap_or_else(unk),
            Operator::Else => Ins::Else,
            Operator::End => Ins::End,
            Operator::Br { relative_depth } => Ins::Br(*relative_depth),
            Operator::BrIf { relative_depth } => Ins::BrIf(*relative_depth),
            Operator::BrTable { targets } => {
                let t: Result<Vec<u32>, _> = targets.targets().collect();
                match t {
                    Ok(t) => Ins::BrTable(t, targets.default()),
                    Err(_) => unk(),
                }
            }
            Operator::BrOnNull { relative_depth } => Ins::BrOnNull(*relative_depth),
            Operator::BrOnNonNull { relative_depth } => Ins::BrOnNonNull(*relative_depth),
            Operator::BrOnCast { relative_depth, from_ref_type, to_ref_type }
            | Operator::BrOnCastFail { relative_depth, from_ref_type, to_ref_type } => {
                let is_func = |r: &wasmparser::RefType| {
                    matches!(
                        r.heap_type(),
                        wasmparser::HeapType::Abstract {
                            shared: false,
                            ty: wasmparser::AbstractHeapType::Func
                        }
                    )
                };
                if is_func(from_ref_type) && is_func(to_ref_type) {
                    if matches!(op, Operator::BrOnCast { .. }) {
                        Ins::BrOnCast(*relative_depth, from_ref_type.is_nullable(), to_ref_type.is_nullable())
                    } else {
                        Ins::BrOnCastFail(*relative_depth, from_ref_type.is_nullable(), to_ref_type.is_nullable())
                    }
                } else {
                    unk()
                }
            }
            Operator::Call { function_index } => Ins::Call(*function_index),
            Operator::ReturnCall { function_index } => Ins::ReturnCall(*function_index),
            Operator::RefFunc { function_index } => Ins::RefFunc(*function_index),
            Operator::LocalGet { local_index } => Ins::LocalGet(*local_index),
            Operator::LocalSet { local_index } => Ins::LocalSet(*local_index),
            Operator::LocalTee { local_index } => Ins::LocalTee(*local_index),
            Operator::GlobalGet { global_index } => Ins::GlobalGet(*global_index),
            Operator::GlobalSet { global_index } => Ins::GlobalSet(*global_index),
            Operator::GlobalAtomicGet { ordering, global_index } => Ins::GlobalAtomic(0, acq(ordering), *global_index),
            Operator::GlobalAtomicSet { ordering, global_index } => Ins::GlobalAtomic(1, acq(ordering), *global_index),
            Operator::GlobalAtomicRmwAdd { ordering, global_index } => Ins::GlobalAtomic(2, acq(ordering), *global_index),
            Operator::GlobalAtomicRmwSub { ordering, global_index } => Ins::GlobalAtomic(3, acq(ordering), *global_index),
            Operator::GlobalAtomicRmwAnd { ordering, global_index } => Ins::GlobalAtomic(4, acq(ordering), *global_index),
            Operator::GlobalAtomicRmwOr { ordering, global_index } => Ins::GlobalAtomic(5, acq(ordering), *global_index),
            Operator::GlobalAtomicRmwXor { ordering, global_index } => Ins::GlobalAtomic(6, acq(ordering), *global_index),
            Operator::GlobalAtomicRmwXchg { ordering, global_index } => Ins::GlobalAtomic(7, acq(ordering), *global_index),
            Operator::GlobalAtomicRmwCmpxchg { ordering, global_index } => Ins::GlobalAtomic(8, acq(ordering), *global_index),
            Operator::I32Const { value } => Ins::I32Const(*value),
            Operator::I64Const { value } => Ins::I64Const(*value),
            Operator::F32Const { value } => Ins::F32Const(value.bits()),
            Operator::F64Const { value } => Ins::F64Const(value.bits()),
            Operator::V128Const { value } => Ins::V128Const(value.i128() as u128),
            Operator::RefNull { hty } => match hty {
                wasmparser::HeapType::Abstract {
                    shared: false,
                    ty: wasmparser::AbstractHeapType::Func,
                } => Ins::RefNull(true),
                wasmparser::HeapType::Abstract {
                    shared: false,
                    ty: wasmparser::AbstractHeapType::Extern,
                } => Ins::RefNull(false),
                _ => unk(),
            },
            Operator::MemorySize { mem } => Ins::MemorySize(*mem),
            Operator::MemoryGrow { mem } => Ins::MemoryGrow(*mem),
            Operator::MemoryFill { mem } => Ins::MemoryFill(*mem),
            Operator::MemoryCopy { dst_mem, src_mem } => Ins::MemoryCopy {
                dst: *dst_mem,
                src: *src_mem,
            },
            Operator::MemoryInit { data_index, mem } => Ins::MemoryInit {
                data: *data_index,
                mem: *mem,
            },
            Operator::DataDrop { data_index } => Ins::DataDrop(*data_index),
            _ => unk(),
        }
    }

    /// Function indices referenced (site kind, index)
    pub fn func_ref(&self) -> Option<(&'static str, u32)> {
        match self {
            Ins::Call(f) => Some(("call", *f)),
            Ins::ReturnCall(f) => Some(("return_call", *f)),
            Ins::RefFunc(f) => Some(("ref.func(code)", *f)),
            _ => None,
        }
    }
    pub fn global_ref(&self) -> Option<(&'static str, u32)> {
        match self {
            Ins::GlobalGet(g) => Some(("global.get(code)", *g)),
            Ins::GlobalSet(g) => Some(("global.set", *g)),
            Ins::GlobalAtomic(0, _, g) => Some(("global.atomic.get", *g)),
            Ins::GlobalAtomic(1, _, g) => Some(("global.atomic.set", *g)),
            Ins::GlobalAtomic(8, _, g) => Some(("global.atomic.rmw.cmpxchg", *g)),
            Ins::GlobalAtomic(_, _, g) => Some(("global.atomic.rmw", *g)),
            _ => None,
        }
    }
    /// memory indices referenced: (site kind, indices)
    pub fn mem_refs(&self) -> Option<(&'static str, Vec<u32>)> {
        match self {
            Ins::Mem(op, m) => {
                let (shape, _, atomic) = op.info();
                let k = if atomic {
                    match shape {
                        MemShape::Load(_) => "atomic.load",
                        MemShape::Store(_) => "atomic.store",
                        MemShape::Rmw(_) => "atomic.rmw",
                        MemShape::Cmpxchg(_) => "atomic.cmpxchg",
                        _ => "atomic.wait/notify",
                    }
                } else if matches!(shape, MemShape::Load(VT::V128) | MemShape::Store(VT::V128)) {
                    "simd.mem"
                } else if matches!(shape, MemShape::Load(_)) {
                    "load"
                } else {
                    "store"
                };
                Some((k, vec![m.mem]))
            }
            Ins::Lane(_, m, _) => Some(("simd.lane", vec![m.mem])),
            Ins::MemorySize(m) => Some(("memory.size", vec![*m])),
            Ins::MemoryGrow(m) => Some(("memory.grow", vec![*m])),
            Ins::MemoryFill(m) => Some(("memory.fill", vec![*m])),
            Ins::MemoryCopy { dst, src } => Some(("memory.copy", vec![*dst, *src])),
            Ins::MemoryInit { mem, .. } => Some(("memory.init", vec![*mem])),
            _ => None,
        }
    }

    /// Apply index maps to every entity reference (used to turn IDs into tokens' numeric ids etc.)
    pub fn map_refs(
        &self,
        f: &mut dyn FnMut(u32) -> u32,
        g: &mut dyn FnMut(u32) -> u32,
        m: &mut dyn FnMut(u32) -> u32,
    ) -> Ins {
        let mut c = self.clone();
        match &mut c {
            Ins::Call(x) | Ins::ReturnCall(x) | Ins::RefFunc(x) => *x = f(*x),
            Ins::GlobalGet(x) | Ins::GlobalSet(x) | Ins::GlobalAtomic(_, _, x) => *x = g(*x),
            Ins::Mem(_, a) | Ins::Lane(_, a, _) => a.mem = m(a.mem),
            Ins::MemorySize(x) | Ins::MemoryGrow(x) | Ins::MemoryFill(x) => *x = m(*x),
            Ins::MemoryCopy { dst, src } => {
                *dst = m(*dst);
                *src = m(*src);
            }
            Ins::MemoryInit { mem, .. } => *mem = m(*mem),
            _ => {}
        }
        c
    }

    /// opens a control frame that a later `end` closes (block, loop, if, try_table)
    pub fn opens_frame(&self) -> bool {
        matches!(self, Ins::Block(_) | Ins::Loop(_) | Ins::If(_) | Ins::TryTable(..))
    }
    pub fn is_block_opener(&self) -> bool {
        matches!(self, Ins::Block(_) | Ins::Loop(_) | Ins::If(_))
    }
    pub fn is_block_style(&self) -> bool {
        matches!(self, Ins::Block(_) | Ins::Loop(_) | Ins::If(_) | Ins::Else)
    }
    pub fn is_branch(&self) -> bool {
        matches!(
            self,
            Ins::Br(_) | Ins::BrIf(_) | Ins::BrTable(..) | Ins::BrOnNull(_) | Ins::BrOnNonNull(_) | Ins::BrOnCast(..) | Ins::BrOnCastFail(..)
        )
    }
}

fn func_ref_type(nullable: bool) -> wasm_encoder::RefType {
    wasm_encoder::RefType {
        nullable,
        heap_type: wasm_encoder::HeapType::FUNC,
    }
}

/// Encode a list of instructions to raw bytes (no trailing `end` added).
pub fn encode_ins(ins: &[Ins], out: &mut Vec<u8>) {
    use wasm_encoder::Encode;
    for i in ins {
        i.enc().encode(out);
    }
}

/// Read all operators from a byte slice produced by `encode_ins`.
pub fn read_ops<'a>(bytes: &'a [u8]) -> Vec<Operator<'a>> {
    let mut out = vec![];
    let reader = wasmparser::BinaryReader::new(bytes, 0);
    let mut r = wasmparser::OperatorsReader::new(reader);
    while !r.eof() {
        match r.read() {
            Ok(op) => out.push(op),
            Err(e) => panic!("harness: cannot re-read lowered ops: {e}"),
        }
    }
    out
}
