//! Generator of terminating, executable programs with anchors (`mark` host calls) around every
//! construct, branch and candidate instruction, used by the executed checks C16-C20.
use crate::ins::*;
use crate::model::FUNC_MAGIC_BASE;
use crate::rng::Rng;
use crate::spec::*;
use serde::{Deserialize, Serialize};

pub const F_MARK: u32 = 0;
pub const F_PROBE: u32 = 1;
pub const F_CHOOSE: u32 = 2;
pub const F_SINK: u32 = 3;
/// `env.helper(a, b) = 3a + b`: a host function the program calls inside expressions and that a history
/// may replace by a built body computing the same thing (`helper_body`)
pub const F_HELPER: u32 = 4;
pub const N_HOST: u32 = 5;
/// fingerprint shared by the host implementation of `helper` (its Enter/Leave events) and the built body
pub const HELPER_MAGIC: i64 = FUNC_MAGIC_BASE + 0x4e1;

/// The body (without the final `end`) a history builds to replace `env.helper`: a typed block with a
/// value-carrying conditional branch, so that every special mode has a site in it.
pub fn helper_body() -> Vec<Ins> {
    helper_body_with(HELPER_MAGIC)
}

/// fingerprint of the program's own last function `helper2` (same computation as `helper`), which a
/// history may convert into the import `env.helper2` that the simulated host provides
pub const HELPER2_MAGIC: i64 = FUNC_MAGIC_BASE + 0x4e2;

pub fn helper_body_with(magic: i64) -> Vec<Ins> {
    vec![
        Ins::I64Const(magic),
        Ins::Drop,
        Ins::Block(BT::Val(VT::I32)),
        Ins::LocalGet(0),
        Ins::I32Const(3),
        Ins::S(Simple::I32Mul),
        Ins::LocalGet(1),
        Ins::BrIf(0),
        Ins::End,
        // both parameters are read again after the branch (a clobbered parameter changes the result)
        Ins::LocalGet(1),
        Ins::S(Simple::I32Add),
        Ins::LocalGet(0),
        Ins::Drop,
    ]
}

#[derive(Clone, Copy, Debug, PartialEq, Eq, Serialize, Deserialize)]
pub enum CK {
    Block,
    Loop,
    If,
}

#[derive(Clone, Debug, PartialEq, Eq, Serialize, Deserialize)]
pub struct Construct {
    pub opener: u32,
    pub kind: CK,
    pub else_idx: Option<u32>,
    pub end: u32,
    pub m_entry: i32,
    pub m_fall: i32,
    pub m_else_entry: Option<i32>,
    pub m_else_fall: Option<i32>,
    pub m_after: i32,
}

#[derive(Clone, Debug, PartialEq, Eq, Serialize, Deserialize)]
pub struct BranchInfo {
    pub idx: u32,
    pub m_br: i32,
    pub m_post: Option<i32>,
    /// some target of the branch is a loop label (outside C20)
    pub targets_loop: bool,
    pub conditional: bool,
}

#[derive(Clone, Debug, PartialEq, Eq, Serialize, Deserialize)]
pub struct PlainInfo {
    pub idx: u32,
    pub m_pre: i32,
    pub m_post: i32,
}

#[derive(Clone, Debug, Default, PartialEq, Eq, Serialize, Deserialize)]
pub struct FuncInfo {
    pub magic: i64,
    pub constructs: Vec<Construct>,
    pub branches: Vec<BranchInfo>,
    pub plains: Vec<PlainInfo>,
    /// (instr idx of `unreachable`, mark immediately before it)
    pub unreachables: Vec<(u32, i32)>,
    /// number of `return_call` exits generated
    #[serde(default)]
    pub tail_calls: u32,
    /// (instr idx of a `throw` that an enclosing `try_table` of the same function catches, mark
    /// immediately before it)
    #[serde(default)]
    pub caught_throws: Vec<(u32, i32)>,
}

#[derive(Clone, Debug, Default, PartialEq, Eq, Serialize, Deserialize)]
pub struct ProgInfo {
    /// per local function, in order (function ID = N_HOST + position)
    pub funcs: Vec<FuncInfo>,
}

#[derive(Clone, Debug, Default, PartialEq, Eq, Serialize, Deserialize)]
pub struct ExecPlan {
    /// (exported function name, i32/i64 argument values as i64)
    pub calls: Vec<(String, Vec<i64>)>,
    pub tape: Vec<i32>,
    pub trap_at: Option<usize>,
}

#[derive(Clone, Copy)]
struct Lbl {
    is_loop: bool,
    /// types a branch to this label must provide
    arity: u8, // number of i32 values (only i32-typed labels are generated besides the function label)
    func_results: bool,
}

struct Types {
    groups: Vec<RecGroupSpec>,
}
impl Types {
    fn intern(&mut self, p: &[VT], r: &[VT]) -> u32 {
        let want = SubT::func(p, r);
        for (i, g) in self.groups.iter().enumerate() {
            if g.types[0] == want {
                return i as u32;
            }
        }
        self.groups.push(RecGroupSpec {
            explicit: false,
            types: vec![want],
        });
        self.groups.len() as u32 - 1
    }
}

struct Em<'a> {
    rng: &'a mut Rng,
    out: Vec<Ins>,
    labels: Vec<Lbl>,
    info: FuncInfo,
    next_mark: &'a mut i32,
    /// types of params + locals
    locals: Vec<VT>,
    /// locals the generator may freely assign (excludes loop counters)
    free_i32: Vec<u32>,
    free_i64: Vec<u32>,
    results: Vec<VT>,
    callees: Vec<(u32, Vec<VT>, Vec<VT>)>,
    types: &'a mut Types,
    budget: i32,
    rich: bool,
    /// number of enclosing try_tables (an uncaught-exit `throw` is only generated outside of them)
    in_try: u32,
    /// function index of the program's `helper2`
    helper2: u32,
    /// functions that may be the target of `ref.func` (declared in an element segment)
    ref_funcs: Vec<u32>,
}

impl Em<'_> {
    fn mark(&mut self) -> i32 {
        *self.next_mark += 1;
        let k = *self.next_mark;
        self.out.push(Ins::I32Const(k));
        self.out.push(Ins::Call(F_MARK));
        k
    }

    /// An anchor next to a construct boundary, left out one time in four (returns 0 then): without
    /// it structural instructions become adjacent (`end end`, `end else`, opener directly followed
    /// by a branch ...), which lowerings that look at neighbouring instructions are sensitive to. The
    /// construct is then judged through the interpreter's virtual control-flow events only.
    fn mark_opt(&mut self) -> i32 {
        if self.rich && self.rng.chance(1, 4) {
            0
        } else {
            self.mark()
        }
    }

    fn expr32(&mut self, depth: u32) {
        let r = self.rng.below(if depth >= 2 { 5 } else { 9 });
        match r {
            0 => self.out.push(Ins::I32Const(self.rng.below(7) as i32 - 2)),
            1 if !self.free_i32.is_empty() => {
                let l = *self.rng.pick(&self.free_i32);
                self.out.push(Ins::LocalGet(l));
            }
            2 => self.out.push(Ins::Call(F_CHOOSE)),
            3 if self.rich && depth < 2 && self.rng.chance(1, 3) => {
                self.expr32(depth + 1);
                self.expr32(depth + 1);
                let f = if self.rng.chance(1, 2) { F_HELPER } else { self.helper2 };
                self.out.push(Ins::Call(f));
            }
            3 => self.out.push(Ins::GlobalGet(0)),
            4 => self.out.push(Ins::I32Const(self.rng.below(100) as i32)),
            5 | 6 => {
                self.expr32(depth + 1);
                self.expr32(depth + 1);
                let op = *self.rng.pick(&[
                    Simple::I32Add,
                    Simple::I32Sub,
                    Simple::I32Mul,
                    Simple::I32And,
                    Simple::I32Xor,
                    Simple::I32LtS,
                    Simple::I32Eq,
                    Simple::I32GeU,
                    Simple::I32Shl,
                ]);
                self.out.push(Ins::S(op));
            }
            7 => {
                // masked load
                self.expr32(depth + 1);
                self.out.push(Ins::I32Const(0xfc));
                self.out.push(Ins::S(Simple::I32And));
                let op = *self.rng.pick(&[MemOp::I32Load, MemOp::I32Load8U, MemOp::I32Load16S]);
                self.out.push(Ins::Mem(op, MA { mem: 0, offset: self.rng.below(16) as u64, align: 0 }));
            }
            _ => {
                self.expr64(depth + 1);
                self.out.push(Ins::S(Simple::I32WrapI64));
            }
        }
    }

    fn expr64(&mut self, depth: u32) {
        match self.rng.below(if depth >= 2 { 3 } else { 5 }) {
            0 => self.out.push(Ins::I64Const(self.rng.below(1000) as i64 - 5)),
            1 if !self.free_i64.is_empty() => {
                let l = *self.rng.pick(&self.free_i64);
                self.out.push(Ins::LocalGet(l));
            }
            2 => self.out.push(Ins::GlobalGet(1)),
            3 => {
                self.expr32(depth + 1);
                self.out.push(Ins::S(Simple::I64ExtendI32S));
            }
            _ => {
                self.expr64(depth + 1);
                self.expr64(depth + 1);
                self.out.push(Ins::S(*self.rng.pick(&[Simple::I64Add, Simple::I64Mul, Simple::I64Xor])));
            }
        }
    }

    fn expr_of(&mut self, t: VT) {
        match t {
            VT::I32 => self.expr32(1),
            VT::I64 => self.expr64(1),
            other => self.out.push(other.default_ins()),
        }
    }

    fn cond(&mut self) {
        if self.rng.chance(1, 2) {
            self.out.push(Ins::Call(F_CHOOSE));
            self.out.push(Ins::I32Const(1));
            self.out.push(Ins::S(Simple::I32And));
        } else {
            self.expr32(1);
        }
    }

    /// push the values a branch to label `d` must carry
    fn branch_values(&mut self, d: usize) {
        let l = self.labels[self.labels.len() - 1 - d];
        if l.func_results {
            for t in self.results.clone() {
                self.expr_of(t);
            }
        } else {
            for _ in 0..l.arity {
                self.expr32(1);
            }
        }
    }
    fn branch_arity(&self, d: usize) -> usize {
        let l = self.labels[self.labels.len() - 1 - d];
        if l.func_results {
            self.results.len()
        } else {
            l.arity as usize
        }
    }

    fn plain(&mut self) {
        // operands, mark(pre), instruction, mark(post)
        let kind = self.rng.below(7);
        match kind {
            0 if !self.free_i32.is_empty() => {
                let l = *self.rng.pick(&self.free_i32);
                self.expr32(0);
                let pre = self.mark();
                let idx = self.out.len() as u32;
                self.out.push(Ins::LocalSet(l));
                let post = self.mark();
                self.info.plains.push(PlainInfo { idx, m_pre: pre, m_post: post });
            }
            1 if !self.free_i64.is_empty() => {
                let l = *self.rng.pick(&self.free_i64);
                self.expr64(0);
                let pre = self.mark();
                let idx = self.out.len() as u32;
                self.out.push(Ins::LocalSet(l));
                let post = self.mark();
                self.info.plains.push(PlainInfo { idx, m_pre: pre, m_post: post });
            }
            2 => {
                let g = self.rng.below(2) as u32;
                if g == 0 {
                    self.expr32(0)
                } else {
                    self.expr64(0)
                }
                let pre = self.mark();
                let idx = self.out.len() as u32;
                self.out.push(Ins::GlobalSet(g));
                let post = self.mark();
                self.info.plains.push(PlainInfo { idx, m_pre: pre, m_post: post });
            }
            3 => {
                self.expr32(1);
                self.out.push(Ins::I32Const(0xfc));
                self.out.push(Ins::S(Simple::I32And));
                self.expr32(0);
                let pre = self.mark();
                let idx = self.out.len() as u32;
                let op = *self.rng.pick(&[MemOp::I32Store, MemOp::I32Store8, MemOp::I32Store16]);
                self.out.push(Ins::Mem(op, MA { mem: 0, offset: self.rng.below(16) as u64, align: 0 }));
                let post = self.mark();
                self.info.plains.push(PlainInfo { idx, m_pre: pre, m_post: post });
            }
            4 => {
                self.expr64(0);
                let pre = self.mark();
                let idx = self.out.len() as u32;
                self.out.push(Ins::Call(F_SINK));
                let post = self.mark();
                self.info.plains.push(PlainInfo { idx, m_pre: pre, m_post: post });
            }
            5 if !self.callees.is_empty() => {
                let (f, p, r) = self.rng.pick(&self.callees).clone();
                for t in &p {
                    self.expr_of(*t);
                }
                let pre = self.mark();
                let idx = self.out.len() as u32;
                self.out.push(Ins::Call(f));
                let post = self.mark();
                self.info.plains.push(PlainInfo { idx, m_pre: pre, m_post: post });
                for _ in &r {
                    self.out.push(Ins::Drop);
                }
            }
            _ => {
                let pre = self.mark();
                let idx = self.out.len() as u32;
                self.out.push(Ins::Nop);
                let post = self.mark();
                self.info.plains.push(PlainInfo { idx, m_pre: pre, m_post: post });
            }
        }
    }

    /// `br_on_null` / `br_on_cast` / `br_on_cast_fail` on the abstract `func` heap type
    fn ref_branch(&mut self) {
        let non_null = self.rng.chance(1, 2) && !self.ref_funcs.is_empty();
        let push_ref = |em: &mut Self| {
            if non_null {
                let f = *em.rng.pick(&em.ref_funcs);
                em.out.push(Ins::RefFunc(f));
            } else {
                em.out.push(Ins::RefNull(true));
            }
        };
        if self.rng.chance(1, 3) {
            // br_on_null to an enclosing label without values
            let cands: Vec<usize> = (0..self.labels.len())
                .filter(|d| {
                    let l = self.labels[self.labels.len() - 1 - d];
                    !l.is_loop && l.arity < 100 && if l.func_results { self.results.is_empty() } else { l.arity == 0 }
                })
                .collect();
            let d = match self.rng.pick_opt(&cands) {
                Some(d) => *d,
                None => return self.plain(),
            };
            let m_br = self.mark();
            push_ref(self);
            let idx = self.out.len() as u32;
            self.out.push(Ins::BrOnNull(d as u32));
            let m_post = self.mark();
            self.out.push(Ins::Drop);
            self.info.branches.push(BranchInfo { idx, m_br, m_post: Some(m_post), targets_loop: false, conditional: true });
        } else {
            // a funcref-typed block that only the cast branch targets
            let fail = self.rng.chance(1, 2);
            let opener = self.out.len() as u32;
            self.out.push(Ins::Block(BT::Val(VT::FuncRef)));
            self.labels.push(Lbl { is_loop: false, arity: 200, func_results: false });
            let m_entry = self.mark();
            let m_br = self.mark();
            push_ref(self);
            let idx = self.out.len() as u32;
            self.out.push(if fail { Ins::BrOnCastFail(0, true, false) } else { Ins::BrOnCast(0, true, true) });
            let m_post = self.mark();
            self.info.branches.push(BranchInfo { idx, m_br, m_post: Some(m_post), targets_loop: false, conditional: true });
            self.out.push(Ins::Drop);
            self.out.push(Ins::RefNull(true));
            let m_fall = self.mark();
            let end = self.out.len() as u32;
            self.out.push(Ins::End);
            self.labels.pop();
            let m_after = self.mark();
            self.out.push(Ins::Drop);
            self.info.constructs.push(Construct { opener, kind: CK::Block, else_idx: None, end, m_entry, m_fall, m_else_entry: None, m_else_fall: None, m_after });
        }
    }

    fn risky(&mut self) {
        // rarely: an instruction that may trap (division by a possibly-zero value / wild load)
        if self.rng.chance(1, 2) {
            self.expr32(1);
            self.expr32(1);
            self.out.push(Ins::S(*self.rng.pick(&[Simple::I32DivS, Simple::I32RemU])));
            self.out.push(Ins::Drop);
        } else {
            self.expr32(1);
            self.out.push(Ins::Mem(MemOp::I32Load, MA { mem: 0, offset: 65500, align: 0 }));
            self.out.push(Ins::Drop);
        }
    }

    fn body(&mut self, nest: u32) {
        let n = self.rng.range(1, 4);
        for _ in 0..n {
            if self.budget <= 0 {
                break;
            }
            self.stmt(nest);
        }
    }

    /// block type for a construct: mostly empty, sometimes a single i32 result, rarely a function type
    /// (block type, number of i32 results, number of i32 parameters)
    fn pick_bt(&mut self) -> (BT, u8, u8) {
        if self.rich && self.rng.chance(1, 5) {
            (BT::Val(VT::I32), 1, 0)
        } else if self.rich && self.rng.chance(1, 12) {
            let t = self.types.intern(&[], &[VT::I32, VT::I32]);
            (BT::Func(t), 2, 0)
        } else if self.rich && self.rng.chance(1, 12) {
            // parameterised constructs: the operand is on the stack when the body is entered
            if self.rng.chance(1, 2) {
                let t = self.types.intern(&[VT::I32], &[VT::I32]);
                (BT::Func(t), 1, 1)
            } else {
                let t = self.types.intern(&[VT::I32], &[]);
                (BT::Func(t), 0, 1)
            }
        } else {
            (BT::Empty, 0, 0)
        }
    }

    fn stmt(&mut self, nest: u32) {
        self.budget -= 1;
        let r = self.rng.below(100);
        if r < 34 || nest >= 4 {
            if self.rng.chance(1, 25) {
                self.risky();
            } else if self.rich && self.rng.chance(1, 8) {
                self.ref_branch();
            } else {
                self.plain();
            }
            return;
        }
        match r {
            34..=36 if self.rich => {
                // block $catch { try_table (catch $t 0 | catch_all 0) { body; [guarded throw] } }
                let b_open = self.out.len() as u32;
                self.out.push(Ins::Block(BT::Empty));
                self.labels.push(Lbl { is_loop: false, arity: 0, func_results: false });
                let b_entry = self.mark_opt();
                let clause = if self.rng.chance(1, 2) { (Some(0), 0) } else { (None, 0) };
                self.out.push(Ins::TryTable(BT::Empty, vec![clause]));
                // the try_table label is never a branch target (arity sentinel), it only counts as a depth
                self.labels.push(Lbl { is_loop: false, arity: 150, func_results: false });
                self.mark();
                self.in_try += 1;
                self.body(nest + 2);
                self.in_try -= 1;
                if self.rng.chance(2, 3) {
                    // a throw this try_table catches; the guard makes it path dependent
                    self.out.push(Ins::Call(F_CHOOSE));
                    self.out.push(Ins::I32Const(3));
                    self.out.push(Ins::S(Simple::I32Eq));
                    let opener = self.out.len() as u32;
                    self.out.push(Ins::If(BT::Empty));
                    self.labels.push(Lbl { is_loop: false, arity: 0, func_results: false });
                    let m_entry = self.mark();
                    let pre = self.mark();
                    let tidx = self.out.len() as u32;
                    self.out.push(Ins::Throw(0));
                    self.info.caught_throws.push((tidx, pre));
                    let m_fall = self.mark();
                    let end = self.out.len() as u32;
                    self.out.push(Ins::End);
                    self.labels.pop();
                    let m_after = self.mark();
                    self.info.constructs.push(Construct {
                        opener,
                        kind: CK::If,
                        else_idx: None,
                        end,
                        m_entry,
                        m_fall,
                        m_else_entry: None,
                        m_else_fall: None,
                        m_after,
                    });
                }
                self.mark();
                self.out.push(Ins::End);
                self.labels.pop();
                self.mark();
                let b_fall = self.mark_opt();
                let b_end = self.out.len() as u32;
                self.out.push(Ins::End);
                self.labels.pop();
                let b_after = self.mark_opt();
                self.info.constructs.push(Construct {
                    opener: b_open,
                    kind: CK::Block,
                    else_idx: None,
                    end: b_end,
                    m_entry: b_entry,
                    m_fall: b_fall,
                    m_else_entry: None,
                    m_else_fall: None,
                    m_after: b_after,
                });
            }
            34..=47 => {
                // block
                let (bt, ar, np) = self.pick_bt();
                for _ in 0..np {
                    self.expr32(1);
                }
                let opener = self.out.len() as u32;
                self.out.push(Ins::Block(bt));
                self.labels.push(Lbl { is_loop: false, arity: ar, func_results: false });
                let m_entry = self.mark_opt();
                for _ in 0..np {
                    self.out.push(Ins::Drop);
                }
                self.body(nest + 1);
                for _ in 0..ar {
                    self.expr32(1);
                }
                let m_fall = self.mark_opt();
                let end = self.out.len() as u32;
                self.out.push(Ins::End);
                self.labels.pop();
                let m_after = self.mark_opt();
                for _ in 0..ar {
                    self.out.push(Ins::Drop);
                }
                self.info.constructs.push(Construct {
                    opener,
                    kind: CK::Block,
                    else_idx: None,
                    end,
                    m_entry,
                    m_fall,
                    m_else_entry: None,
                    m_else_fall: None,
                    m_after,
                });
            }
            48..=57 => {
                // counted loop inside a breakable block
                let c = self.locals.len() as u32;
                self.locals.push(VT::I32);
                let n = self.rng.range(1, 4) as i32;
                self.out.push(Ins::I32Const(n));
                self.out.push(Ins::LocalSet(c));
                let b_open = self.out.len() as u32;
                self.out.push(Ins::Block(BT::Empty));
                self.labels.push(Lbl { is_loop: false, arity: 0, func_results: false });
                let b_entry = self.mark_opt();
                // one loop in four takes a parameter (block type = type index): the operand is on the stack
                // at every entry, also when the back edge re-enters the loop
                let with_param = self.rich && self.rng.chance(1, 4);
                if with_param {
                    self.expr32(1);
                }
                let l_open = self.out.len() as u32;
                if with_param {
                    let t = self.types.intern(&[VT::I32], &[]);
                    self.out.push(Ins::Loop(BT::Func(t)));
                } else {
                    self.out.push(Ins::Loop(BT::Empty));
                }
                self.labels.push(Lbl { is_loop: true, arity: if with_param { 1 } else { 0 }, func_results: false });
                let l_entry = self.mark_opt();
                if with_param {
                    self.out.push(Ins::Drop);
                }
                self.body(nest + 2);
                // back edge
                let m_br = self.mark();
                if with_param {
                    self.out.push(Ins::I32Const(7));
                }
                self.out.push(Ins::LocalGet(c));
                self.out.push(Ins::I32Const(1));
                self.out.push(Ins::S(Simple::I32Sub));
                self.out.push(Ins::LocalTee(c));
                let bidx = self.out.len() as u32;
                self.out.push(Ins::BrIf(0));
                let m_post = self.mark();
                if with_param {
                    self.out.push(Ins::Drop);
                }
                self.info.branches.push(BranchInfo {
                    idx: bidx,
                    m_br,
                    m_post: Some(m_post),
                    targets_loop: true,
                    conditional: true,
                });
                let l_fall = self.mark_opt();
                let l_end = self.out.len() as u32;
                self.out.push(Ins::End);
                self.labels.pop();
                let l_after = self.mark_opt();
                self.info.constructs.push(Construct {
                    opener: l_open,
                    kind: CK::Loop,
                    else_idx: None,
                    end: l_end,
                    m_entry: l_entry,
                    m_fall: l_fall,
                    m_else_entry: None,
                    m_else_fall: None,
                    m_after: l_after,
                });
                let b_fall = self.mark_opt();
                let b_end = self.out.len() as u32;
                self.out.push(Ins::End);
                self.labels.pop();
                let b_after = self.mark_opt();
                self.info.constructs.push(Construct {
                    opener: b_open,
                    kind: CK::Block,
                    else_idx: None,
                    end: b_end,
                    m_entry: b_entry,
                    m_fall: b_fall,
                    m_else_entry: None,
                    m_else_fall: None,
                    m_after: b_after,
                });
            }
            58..=75 => {
                // if / if-else
                let with_else = self.rng.chance(1, 2);
                let (bt, ar, np) = if with_else { self.pick_bt() } else { (BT::Empty, 0, 0) };
                for _ in 0..np {
                    self.expr32(1);
                }
                self.cond();
                let opener = self.out.len() as u32;
                self.out.push(Ins::If(bt));
                self.labels.push(Lbl { is_loop: false, arity: ar, func_results: false });
                let m_entry = self.mark_opt();
                for _ in 0..np {
                    self.out.push(Ins::Drop);
                }
                self.body(nest + 1);
                for _ in 0..ar {
                    self.expr32(1);
                }
                let m_fall = self.mark_opt();
                let (mut else_idx, mut m_else_entry, mut m_else_fall) = (None, None, None);
                if with_else {
                    else_idx = Some(self.out.len() as u32);
                    self.out.push(Ins::Else);
                    m_else_entry = Some(self.mark_opt());
                    for _ in 0..np {
                        self.out.push(Ins::Drop);
                    }
                    self.body(nest + 1);
                    for _ in 0..ar {
                        self.expr32(1);
                    }
                    m_else_fall = Some(self.mark_opt());
                }
                let end = self.out.len() as u32;
                self.out.push(Ins::End);
                self.labels.pop();
                let m_after = self.mark_opt();
                for _ in 0..ar {
                    self.out.push(Ins::Drop);
                }
                self.info.constructs.push(Construct {
                    opener,
                    kind: CK::If,
                    else_idx,
                    end,
                    m_entry,
                    m_fall,
                    m_else_entry,
                    m_else_fall,
                    m_after,
                });
            }
            76..=83 => {
                // unconditional branch (not to a loop: that would skip the counter decrement)
                let cands: Vec<usize> = (0..self.labels.len()).filter(|d| { let l = self.labels[self.labels.len() - 1 - d]; !l.is_loop && l.arity < 100 }).collect();
                let d = *self.rng.pick(&cands);
                let m_br = self.mark();
                self.branch_values(d);
                let idx = self.out.len() as u32;
                self.out.push(Ins::Br(d as u32));
                self.info.branches.push(BranchInfo {
                    idx,
                    m_br,
                    m_post: None,
                    targets_loop: false,
                    conditional: false,
                });
            }
            84..=91 => {
                // conditional branch
                let cands: Vec<usize> = (0..self.labels.len()).filter(|d| { let l = self.labels[self.labels.len() - 1 - d]; !l.is_loop && l.arity < 100 }).collect();
                let d = *self.rng.pick(&cands);
                let m_br = self.mark();
                self.branch_values(d);
                self.cond();
                let idx = self.out.len() as u32;
                self.out.push(Ins::BrIf(d as u32));
                let m_post = self.mark();
                for _ in 0..self.branch_arity(d) {
                    self.out.push(Ins::Drop);
                }
                self.info.branches.push(BranchInfo {
                    idx,
                    m_br,
                    m_post: Some(m_post),
                    targets_loop: false,
                    conditional: true,
                });
            }
            92..=95 => {
                // br_table over labels of equal arity 0 (the function label only when it has no results)
                let cands: Vec<u32> = (0..self.labels.len())
                    .filter(|d| {
                        let l = self.labels[self.labels.len() - 1 - d];
                        !l.is_loop && if l.func_results { self.results.is_empty() } else { l.arity == 0 }
                    })
                    .map(|d| d as u32)
                    .collect();
                if cands.is_empty() {
                    self.plain();
                    return;
                }
                let n = self.rng.range(1, 3);
                let targets: Vec<u32> = (0..n).map(|_| *self.rng.pick(&cands)).collect();
                let default = *self.rng.pick(&cands);
                let m_br = self.mark();
                self.out.push(Ins::Call(F_CHOOSE));
                let idx = self.out.len() as u32;
                self.out.push(Ins::BrTable(targets, default));
                self.info.branches.push(BranchInfo {
                    idx,
                    m_br,
                    m_post: None,
                    targets_loop: false,
                    conditional: false,
                });
            }
            96..=97 => {
                // return, or a tail call to a callee with the same results
                self.mark();
                let results = self.results.clone();
                let tails: Vec<(u32, Vec<VT>, Vec<VT>)> = self.callees.iter().filter(|c| c.2 == results).cloned().collect();
                if !tails.is_empty() && self.rng.chance(2, 5) {
                    let (f, p, _) = self.rng.pick(&tails).clone();
                    for t in &p {
                        self.expr_of(*t);
                    }
                    self.out.push(Ins::ReturnCall(f));
                    self.info.tail_calls += 1;
                } else {
                    for t in results {
                        self.expr_of(t);
                    }
                    self.out.push(Ins::Return);
                }
            }
            _ => {
                // guarded unreachable
                self.out.push(Ins::Call(F_CHOOSE));
                self.out.push(Ins::I32Const(7));
                self.out.push(Ins::S(Simple::I32Eq));
                let opener = self.out.len() as u32;
                self.out.push(Ins::If(BT::Empty));
                self.labels.push(Lbl { is_loop: false, arity: 0, func_results: false });
                let m_entry = self.mark_opt();
                let mut pre = self.mark();
                // sometimes the explicit exit directly follows a conditional branch (no anchor in
                // between): instruction adjacency matters to lowerings that look at neighbours
                let cands: Vec<usize> = (0..self.labels.len())
                    .filter(|d| {
                        let l = self.labels[self.labels.len() - 1 - d];
                        !l.is_loop && if l.func_results { self.results.is_empty() } else { l.arity == 0 }
                    })
                    .collect();
                if !cands.is_empty() && self.rng.chance(1, 3) {
                    let d = *self.rng.pick(&cands);
                    let m_br = self.mark();
                    self.cond();
                    let idx = self.out.len() as u32;
                    self.out.push(Ins::BrIf(d as u32));
                    self.info.branches.push(BranchInfo {
                        idx,
                        m_br,
                        m_post: None,
                        targets_loop: false,
                        conditional: true,
                    });
                    pre = m_br;
                }
                let uidx = self.out.len() as u32;
                if self.results.is_empty() && self.rng.chance(1, 3) {
                    self.out.push(Ins::Return);
                } else {
                    if self.in_try == 0 && self.rng.chance(1, 4) {
                        // an exception nobody in this function catches (tag 0 has no parameters)
                        self.out.push(Ins::Throw(0));
                    } else {
                        self.out.push(Ins::Unreachable);
                    }
                    self.info.unreachables.push((uidx, pre));
                }
                let m_fall = self.mark_opt();
                let end = self.out.len() as u32;
                self.out.push(Ins::End);
                self.labels.pop();
                let m_after = self.mark_opt();
                self.info.constructs.push(Construct {
                    opener,
                    kind: CK::If,
                    else_idx: None,
                    end,
                    m_entry,
                    m_fall,
                    m_else_entry: None,
                    m_else_fall: None,
                    m_after,
                });
            }
        }
    }
}

pub const EXEC_SIGS: &[(&[VT], &[VT])] = &[
    (&[], &[]),
    (&[VT::I32], &[]),
    (&[VT::I32], &[VT::I32]),
    (&[VT::I32, VT::I64], &[VT::I32]),
    (&[VT::I64], &[VT::I64, VT::I32]),
    (&[], &[VT::I32]),
];

pub fn gen_program(rng: &mut Rng, rich: bool) -> (ModuleSpec, ProgInfo) {
    let mut types = Types { groups: vec![] };
    let t_mark = types.intern(&[VT::I32], &[]);
    let t_choose = types.intern(&[], &[VT::I32]);
    let t_sink = types.intern(&[VT::I64], &[]);
    let mut m = ModuleSpec::default();
    let t_helper = types.intern(&[VT::I32, VT::I32], &[VT::I32]);
    for (n, t) in [("mark", t_mark), ("probe", t_mark), ("choose", t_choose), ("sink", t_sink), ("helper", t_helper)] {
        m.imports.push(ImportSpec {
            module: "env".into(),
            name: n.into(),
            kind: ImpKind::Func(t),
        });
    }
    m.memories.push(MemT {
        min: 1,
        max: Some(4),
        shared: false,
        memory64: false,
        page1: false,
    });
    m.globals.push(GlobalSpec {
        ty: VT::I32,
        mutable: true,
        init: ConstE::I32(3),
    });
    m.globals.push(GlobalSpec {
        ty: VT::I64,
        mutable: true,
        init: ConstE::I64(40),
    });
    m.data.push(DataSpec {
        mode: DataMode::Active {
            mem: 0,
            offset: ConstE::I32(0),
        },
        bytes: rng.bytes(32),
    });
    let nf = rng.range(1, 4);
    let sigs: Vec<(Vec<VT>, Vec<VT>)> = (0..nf)
        .map(|_| {
            let (a, b) = *rng.pick(EXEC_SIGS);
            (a.to_vec(), b.to_vec())
        })
        .collect();
    let mut info = ProgInfo::default();
    let mut next_mark = 0i32;
    for k in 0..nf {
        let (params, results) = sigs[k].clone();
        // callees: later functions only (the call graph is a DAG)
        let callees: Vec<(u32, Vec<VT>, Vec<VT>)> = (k + 1..nf).map(|j| (N_HOST + j as u32, sigs[j].0.clone(), sigs[j].1.clone())).collect();
        let mut locals = params.clone();
        let extra: Vec<VT> = (0..rng.range(1, 3)).map(|_| *rng.pick(&[VT::I32, VT::I32, VT::I64])).collect();
        locals.extend(extra.iter().copied());
        let free_i32: Vec<u32> = (0..locals.len() as u32).filter(|i| locals[*i as usize] == VT::I32).collect();
        let free_i64: Vec<u32> = (0..locals.len() as u32).filter(|i| locals[*i as usize] == VT::I64).collect();
        let magic = FUNC_MAGIC_BASE + 1 + k as i64;
        // one function in twelve leaves through its very first instruction (function-level entry and exit
        // instrumentation then meet at instruction 0); its fingerprint constant follows as dead code
        let exit_first = rich && rng.chance(1, 12);
        let magic_first = !exit_first && rng.chance(1, 2);
        let mut em = Em {
            rng,
            out: if magic_first { vec![Ins::I64Const(magic), Ins::Drop] } else { vec![] },
            labels: vec![Lbl {
                is_loop: false,
                arity: 0,
                func_results: true,
            }],
            info: FuncInfo {
                magic,
                ..Default::default()
            },
            next_mark: &mut next_mark,
            locals,
            free_i32,
            free_i64,
            results: results.clone(),
            callees,
            types: &mut types,
            budget: 0,
            in_try: 0,
            helper2: N_HOST + nf as u32,
            rich,
            ref_funcs: (0..nf as u32).map(|j| N_HOST + j).collect(),
        };
        em.budget = if exit_first { 0 } else { em.rng.range(3, 12) as i32 };
        if exit_first {
            if results.is_empty() && em.rng.chance(1, 2) {
                em.out.push(Ins::Return);
            } else {
                em.out.push(Ins::Unreachable);
            }
        }
        while em.budget > 0 {
            em.stmt(0);
        }
        if !magic_first {
            em.out.push(Ins::I64Const(magic));
            em.out.push(Ins::Drop);
        }
        em.mark();
        for t in results.clone() {
            em.expr_of(t);
        }
        if rich && em.rng.chance(1, 5) {
            // the body ends in an explicit exit directly in front of the final `end`
            em.out.push(Ins::Return);
        }
        em.out.push(Ins::End);
        let all_locals = em.locals.clone();
        let body = std::mem::take(&mut em.out);
        info.funcs.push(std::mem::take(&mut em.info));
        let ty = types.intern(&params, &results);
        // run-length encoded like real producers do (several locals per group)
        let mut decl: Vec<(u32, VT)> = vec![];
        for t in &all_locals[params.len()..] {
            match decl.last_mut() {
                Some((n, lt)) if lt == t => *n += 1,
                _ => decl.push((1, *t)),
            }
        }
        m.funcs.push(FuncSpec { ty, locals: decl, body });
        m.exports.push(ExportSpec {
            name: format!("f{k}"),
            kind: ExtKind::Func,
            index: N_HOST + k as u32,
        });
    }
    // the program's own copy of the helper: last local function, not exported, no anchors
    {
        let mut body = helper_body_with(HELPER2_MAGIC);
        body.push(Ins::End);
        m.funcs.push(FuncSpec { ty: t_helper, locals: vec![], body });
        info.funcs.push(FuncInfo { magic: HELPER2_MAGIC, ..Default::default() });
    }
    let tag_ty = types.intern(&[], &[]);
    m.tags.push(tag_ty);
    m.types = types.groups;
    m.elems.push(ElemSpec {
        mode: ElemMode::Declared,
        items: ElemItems::Funcs((0..nf as u32).map(|j| N_HOST + j).collect()),
        ty: None,
    });
    (m, info)
}

pub fn gen_plan(rng: &mut Rng, m: &ModuleSpec, faulty: bool) -> ExecPlan {
    let n_calls = rng.range(1, 3);
    let mut calls = vec![];
    let funcs: Vec<&ExportSpec> = m.exports.iter().filter(|e| e.kind == ExtKind::Func).collect();
    for _ in 0..n_calls {
        let e = *rng.pick(&funcs);
        let ty = m.func_type_of(e.index).unwrap();
        let (p, _) = m.func_sig(ty).unwrap();
        let args: Vec<i64> = p.iter().map(|_| rng.below(9) as i64 - 2).collect();
        calls.push((e.name.clone(), args));
    }
    let tape: Vec<i32> = (0..rng.range(0, 48)).map(|_| if rng.chance(1, 10) { 7 } else { rng.below(5) as i32 }).collect();
    ExecPlan {
        calls,
        tape,
        trap_at: if faulty && rng.chance(1, 3) { Some(rng.range(1, 40)) } else { None },
    }
}
