//! C23 -- the side-effect report lists exactly the tagged additions and probes. Two twin
//! executions of the same scenario: twin A ends with `encode()`, twin B with `pull_side_effects()`
//! (both are first encodings). Records are compared per kind as multisets against the model's list
//! of added items; code bodies of probe records are resolved through twin A's encoded module.
use crate::checks::Judged;
use crate::decode::decode;
use crate::exec::{run, RunResult, Scenario, SideFx, Tail, TailOutcome};
use crate::ins::Ins;
use crate::model::*;
use crate::oracle::{first_bytes, out_maps, resolve, Mismatch, OutMaps};
use crate::spec::*;

#[derive(Debug, Clone)]
struct Exp {
    kind: &'static str,
    key: String,
    content: String,
    tag: Vec<u8>,
    /// an item added through an untagged API carries an empty default tag: a record for it is
    /// accepted but not demanded
    required: bool,
    what: String,
}

fn subt_str(t: &SubT) -> String {
    format!("{:?}", t)
}

pub fn expected_items(m: &Model) -> Vec<Exp> {
    let mut v = vec![];
    let tagged = |t: &Option<Vec<u8>>| -> Option<(Vec<u8>, bool)> { t.as_ref().map(|t| (t.clone(), !t.is_empty())) };
    for i in m.imports.iter().filter(|i| i.added) {
        if let Some((tag, required)) = tagged(&i.tag) {
            v.push(Exp {
                kind: "import",
                key: format!("{}/{}", i.spec.module, i.spec.name),
                content: match i.spec.kind {
                    ImpKind::Func(_) => "func",
                    ImpKind::Global { .. } => "global",
                    ImpKind::Memory(_) => "memory",
                    ImpKind::Table(_) => "table",
                    ImpKind::Tag(_) => "tag",
                }
                .into(),
                tag,
                required,
                what: format!("import {}/{}", i.spec.module, i.spec.name),
            });
        }
    }
    for e in m.exports.iter().filter(|e| e.added && !e.deleted) {
        if let Some((tag, required)) = tagged(&e.tag) {
            v.push(Exp {
                kind: "export",
                key: e.name.clone(),
                content: format!("{:?}/{}", e.kind, e.index),
                tag,
                required,
                what: format!("export {}", e.name),
            });
        }
    }
    for t in m.types.iter().filter(|t| t.added) {
        if let Some((tag, required)) = tagged(&t.tag) {
            v.push(Exp {
                kind: "type",
                key: String::new(),
                content: subt_str(&t.ty),
                tag,
                required,
                what: format!("type {:?}", t.ty.comp),
            });
        }
    }
    for (id, mm) in m.mems.iter().enumerate().filter(|(_, mm)| mm.added && !mm.deleted && mm.imp.is_none()) {
        if let Some((tag, required)) = tagged(&mm.tag) {
            v.push(Exp {
                kind: "memory",
                key: format!("{id}"),
                content: format!("{}/{:?}", mm.ty.min, mm.ty.max),
                tag,
                required,
                what: format!("memory {id}"),
            });
        }
    }
    for d in m.data.iter().filter(|d| d.added) {
        if let Some((tag, required)) = tagged(&d.tag) {
            v.push(Exp {
                kind: "data",
                key: String::new(),
                content: match &d.mode {
                    DataMode::Passive => format!("passive/{:?}", d.bytes),
                    DataMode::Active { mem, .. } => format!("active/{mem}/{:?}", d.bytes),
                },
                tag,
                required,
                what: "data segment".into(),
            });
        }
    }
    for (id, g) in m.globals.iter().enumerate().filter(|(_, g)| g.added && !g.deleted) {
        if let (MGK::Local { ty, mutable, .. }, Some((tag, required))) = (&g.kind, tagged(&g.tag)) {
            v.push(Exp {
                kind: "global",
                key: format!("{id}"),
                content: format!("{:?}/{mutable}", ty),
                tag,
                required,
                what: format!("global {id}"),
            });
        }
    }
    for (id, f) in m.funcs.iter().enumerate().filter(|(_, f)| !f.deleted) {
        if let MFK::Local(l) = &f.kind {
            if let (true, Some((tag, required))) = (l.built, tagged(&l.tag)) {
                v.push(Exp {
                    kind: "func",
                    key: format!("{id}"),
                    content: format!("{:?}->{:?}", l.params.iter().map(|v| format!("{:?}", v)).collect::<Vec<_>>(), l.results.iter().map(|v| format!("{:?}", v)).collect::<Vec<_>>()),
                    tag,
                    required,
                    what: format!("function {id}"),
                });
            }
        }
    }
    v
}

fn rec_content(r: &SideFx) -> String {
    match r.kind.as_str() {
        // the function record's content carries name/sig/locals: compare the signature part only
        "func" => {
            let parts: Vec<&str> = r.content.splitn(2, '/').collect();
            let rest = parts.get(1).copied().unwrap_or("");
            // rest = "<params>-><results>/<locals>"; locals list is the last '/'-separated piece
            match rest.rfind('/') {
                Some(k) => rest[..k].to_string(),
                None => rest.to_string(),
            }
        }
        _ => r.content.clone(),
    }
}

pub fn judge_c23(sc: &Scenario) -> (Judged, RunResult) {
    let mut a = sc.clone();
    a.tail = vec![Tail::Encode];
    let mut b = sc.clone();
    b.tail = vec![Tail::PullSideEffects];
    let ra = run(&a);
    let rb = run(&b);
    let mut owned = vec![];
    let herr = |e: String, r: RunResult| {
        (
            Judged {
                owned: vec![],
                others: vec![],
                harness_error: Some(e),
            },
            r,
        )
    };
    if let Some(e) = &ra.parse_err {
        let e = format!("library refused a validated base module: {e}");
        return herr(e, ra);
    }
    let records: Vec<SideFx> = match rb.tails.first() {
        Some(TailOutcome::SideFx(v)) => v.clone(),
        Some(TailOutcome::Panicked(p)) => {
            // with a clean history pulling side effects must not panic (encode doesn't either)
            if first_bytes(&ra).is_some() {
                owned.push(Mismatch::new("side_effect_panic", &p.sig(), format!("{:?}", p)));
            }
            return (
                Judged {
                    owned,
                    others: vec![],
                    harness_error: None,
                },
                ra,
            );
        }
        _ => {
            // an op panicked before the tail: other properties' business
            return (
                Judged {
                    owned,
                    others: crate::oracle::judge_panics(sc, &ra),
                    harness_error: None,
                },
                ra,
            );
        }
    };
    let model = &ra.model;
    let out = match first_bytes(&ra).map(|b| decode(b)) {
        Some(Ok(o)) => o,
        _ => {
            return (
                Judged {
                    owned,
                    others: vec![],
                    harness_error: None,
                },
                ra,
            )
        }
    };
    let maps: OutMaps = out_maps(&out);
    // ---------- module-level items
    let expected = expected_items(model);
    let mut used = vec![false; records.len()];
    for e in &expected {
        // items without a key (data segments, types) can have identical content: a record that also carries
        // the expected tag is the match, otherwise the first one with the content
        let same = |k: usize, r: &SideFx| !used[k] && r.kind == e.kind && (e.key.is_empty() || r.key == e.key) && rec_content(r) == e.content;
        let hit = records
            .iter()
            .enumerate()
            .position(|(k, r)| same(k, r) && r.tag == e.tag)
            .or_else(|| records.iter().enumerate().position(|(k, r)| same(k, r)));
        match hit {
            Some(k) => {
                used[k] = true;
                if records[k].tag != e.tag {
                    owned.push(Mismatch::new(
                        "side_effect_wrong_tag",
                        e.kind,
                        format!("{}: tag {:?}, expected {:?}", e.what, records[k].tag, e.tag),
                    ));
                }
            }
            None => {
                if e.required {
                    // a record of that kind and key with other content?
                    let other = records.iter().enumerate().position(|(k, r)| !used[k] && r.kind == e.kind && !e.key.is_empty() && r.key == e.key);
                    match other {
                        Some(k) => {
                            used[k] = true;
                            owned.push(Mismatch::new(
                                "side_effect_wrong_content",
                                e.kind,
                                format!("{}: reported {:?}, expected {:?}", e.what, rec_content(&records[k]), e.content),
                            ));
                        }
                        None => owned.push(Mismatch::new("side_effect_missing", e.kind, format!("{} (tag {:?}) has no record", e.what, e.tag))),
                    }
                }
            }
        }
    }
    // ---------- function records: the body is the built instruction sequence + end
    for r in records.iter().filter(|r| r.kind == "func") {
        if let Ok(id) = r.key.parse::<u32>() {
            if let Some(l) = model.local(id) {
                let want: Vec<Ins> = l.body.iter().map(|i| i.ins.clone()).collect();
                if l.built && r.body_ins != want {
                    owned.push(Mismatch::new("side_effect_wrong_body", "func", format!("function {id}: reported {} instructions, built {}", r.body_ins.len(), want.len())));
                }
            }
        }
    }
    // ---------- probes
    let ef = |id: u32| model.func_fp(id);
    let eg = |id: u32| model.global_fp(id);
    let em = |id: u32| model.mem_fp(id);
    let af = |i: u32| Some(maps.funcs.get(i as usize).cloned().unwrap_or(Fp::Unknown(format!("func index {i} out of range"))));
    let ag = |i: u32| Some(maps.globals.get(i as usize).cloned().unwrap_or(Fp::Unknown(format!("global index {i} out of range"))));
    let am = |i: u32| Some(maps.mems.get(i as usize).cloned().unwrap_or(Fp::Unknown(format!("memory index {i} out of range"))));
    let probe_recs: Vec<(usize, &SideFx)> = records.iter().enumerate().filter(|(_, r)| r.kind == "loc_probe" || r.kind == "func_probe").collect();
    for f in model.alive_local_funcs() {
        let l = model.local(f).unwrap();
        let fp = Fp::Magic(l.magic);
        let out_idx = match maps.funcs.iter().position(|x| *x == fp) {
            Some(i) => i as u32,
            None => continue,
        };
        let simple_only = !l.has_special();
        let mut check = |mode: &str, instr: Option<u32>, lst: &ModeList, kind: &str, owned: &mut Vec<Mismatch>| {
            if lst.ins.is_empty() {
                return;
            }
            let hit = probe_recs.iter().find(|(k, r)| {
                !used[*k]
                    && r.kind == kind
                    && r.target.as_ref().map_or(false, |t| t.0 == out_idx && t.1 == instr && t.2 == mode)
            });
            let explicit_tag = lst.tag.as_ref().map_or(false, |t| !t.is_empty());
            match hit {
                None => {
                    if explicit_tag {
                        owned.push(Mismatch::new(
                            "side_effect_missing",
                            &format!("probe:{mode}"),
                            format!("function {f} (encoded index {out_idx}) instr {:?}: tagged probe has no record", instr),
                        ));
                    }
                }
                Some((k, r)) => {
                    used[*k] = true;
                    let want_tag = lst.tag.clone().unwrap_or_default();
                    if r.tag != want_tag {
                        owned.push(Mismatch::new("side_effect_wrong_tag", &format!("probe:{mode}"), format!("function {f} instr {:?}: tag {:?}, expected {:?}", instr, r.tag, want_tag)));
                    }
                    let exp: Vec<_> = lst.ins.iter().map(|i| resolve(i, &|x| ef(x), &|x| eg(x), &|x| em(x))).collect();
                    let act: Vec<_> = r.body_ins.iter().map(|i| resolve(i, &|x| af(x), &|x| ag(x), &|x| am(x))).collect();
                    if exp.len() != act.len() || exp.iter().zip(act.iter()).any(|(a, b)| a.ins != b.ins) {
                        owned.push(Mismatch::new("side_effect_wrong_body", &format!("probe:{mode}"), format!("function {f} instr {:?}: body {:?}, injected {:?}", instr, r.body_ins, lst.ins)));
                    } else if exp != act {
                        owned.push(Mismatch::new(
                            "side_effect_wrong_index_space",
                            &format!("probe:{mode}"),
                            format!("function {f} instr {:?}: references in the reported body do not designate the injected entities in the encoded module's index space", instr),
                        ));
                    }
                }
            }
        };
        if simple_only {
            for (i, mi) in l.body.iter().enumerate() {
                let at_end = i + 1 == l.body.len();
                check("Before", Some(i as u32), &mi.before, "loc_probe", &mut owned);
                if !at_end {
                    check("After", Some(i as u32), &mi.after, "loc_probe", &mut owned);
                    if let Some(a) = &mi.alternate {
                        check("Alternate", Some(i as u32), a, "loc_probe", &mut owned);
                    }
                }
            }
        }
        check("Entry", None, &l.entry, "func_probe", &mut owned);
        check("Exit", None, &l.exit, "func_probe", &mut owned);
    }
    // ---------- no record for items that were already in the parsed module / that do not exist
    for (k, r) in records.iter().enumerate() {
        if used[k] {
            continue;
        }
        match r.kind.as_str() {
            "loc_probe" | "func_probe" => {
                // records of probes in functions with special modes (resolved into other
                // positions) and untagged probes are not judged
                let judged_target = r.target.as_ref().map_or(false, |t| {
                    model.alive_local_funcs().iter().any(|f| {
                        let l = model.local(*f).unwrap();
                        !l.has_special() && maps.funcs.iter().position(|x| *x == Fp::Magic(l.magic)) == Some(t.0 as usize)
                    })
                });
                if judged_target && r.kind == "loc_probe" {
                    owned.push(Mismatch::new("side_effect_extra", "probe", format!("record {:?} matches no injected probe", r.target)));
                }
            }
            "type" => {
                // wrapper block types the lowering of function-exit probes adds are not judged
                if !r.content.contains("Func([]") {
                    owned.push(Mismatch::new("side_effect_extra", "type", format!("record {} matches no added type", r.content)));
                }
            }
            kind => owned.push(Mismatch::new(
                "side_effect_extra",
                kind,
                format!("record {{key {:?}, content {:?}, tag {:?}}} matches no added item", r.key, rec_content(r), r.tag),
            )),
        }
    }
    (
        Judged {
            owned,
            others: vec![],
            harness_error: None,
        },
        ra,
    )
}
