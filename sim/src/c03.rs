//! C03 -- parsing never panics. The simulated part is the storage/transport layer between whoever
//! wrote an artefact and the parser: valid artefacts (generated modules, generated components, the
//! repository's fixtures) are damaged the way faulty disks and short reads damage files, and every
//! parse entry point must answer Ok or Err. Parses run in child processes so that aborts (stack
//! overflow, allocation failure) are observed as wait statuses.
use crate::checks::*;
use crate::exec::guarded;
use crate::gen::{gen_base, GenState};
use crate::rng::{hash_bytes, mix, Rng};
use crate::spec::*;
use serde::{Deserialize, Serialize};
use std::collections::BTreeMap;
use std::io::Read;

pub const BATCH: u64 = 1000;

#[derive(Serialize, Deserialize, Debug, Clone)]
pub struct PanicRec {
    pub sig: String,
    pub entry: String,
    pub count: u64,
    pub first_index: u64,
    pub detail: String,
}

#[derive(Serialize, Deserialize, Debug, Default)]
pub struct BatchOut {
    pub parses: u64,
    pub inputs: u64,
    pub ok: u64,
    pub err: u64,
    pub panics: Vec<PanicRec>,
    pub faults: BTreeMap<String, u64>,
    pub artefacts: BTreeMap<String, u64>,
    pub distinct_inputs: Vec<u64>,
    pub slow: u64,
    pub prefix_enumerations: u64,
}

pub struct Fixtures {
    pub modules: Vec<Vec<u8>>,
    pub components: Vec<Vec<u8>>,
    pub skipped: u64,
}

pub fn load_fixtures() -> Fixtures {
    let mut f = Fixtures {
        modules: vec![],
        components: vec![],
        skipped: 0,
    };
    let mut stack = vec![std::path::PathBuf::from("/repo/tests/test_inputs")];
    let mut files = vec![];
    while let Some(d) = stack.pop() {
        if let Ok(rd) = std::fs::read_dir(&d) {
            for e in rd.flatten() {
                let p = e.path();
                if p.is_dir() {
                    stack.push(p);
                } else {
                    files.push(p);
                }
            }
        }
    }
    files.sort();
    for p in files {
        let ext = p.extension().and_then(|e| e.to_str()).unwrap_or("");
        let bytes = match ext {
            "wasm" => std::fs::read(&p).ok(),
            "wat" => std::fs::read_to_string(&p).ok().and_then(|s| if s.trim().is_empty() { None } else { wat::parse_str(&s).ok() }),
            _ => None,
        };
        match bytes {
            Some(b) if !b.is_empty() && b.len() <= 256 * 1024 => {
                if b.len() >= 8 && b[4] == 0x0d {
                    f.components.push(b)
                } else {
                    f.modules.push(b)
                }
            }
            _ => f.skipped += 1,
        }
    }
    f
}

fn leb(mut v: u64, out: &mut Vec<u8>) {
    loop {
        let b = (v & 0x7f) as u8;
        v >>= 7;
        if v == 0 {
            out.push(b);
            break;
        }
        out.push(b | 0x80);
    }
}

fn section(id: u8, payload: &[u8], out: &mut Vec<u8>) {
    out.push(id);
    leb(payload.len() as u64, out);
    out.extend_from_slice(payload);
}

pub const COMPONENT_HEADER: [u8; 8] = [0x00, 0x61, 0x73, 0x6d, 0x0d, 0x00, 0x01, 0x00];

/// A generated component: core modules, nested components (to `depth`), custom sections, a few
/// typed sections built with wasm-encoder.
pub fn gen_component(rng: &mut Rng, modules: &[Vec<u8>], depth: u32) -> Vec<u8> {
    let mut out = COMPONENT_HEADER.to_vec();
    let n = rng.range(1, 5);
    for _ in 0..n {
        match rng.below(7) {
            0 | 1 | 2 => {
                let m = rng.pick(modules);
                section(1, m, &mut out);
            }
            3 if depth > 0 => {
                let c = gen_component(rng, modules, depth - 1);
                section(4, &c, &mut out);
            }
            4 => {
                let mut p = vec![];
                let name = b"custom-x";
                leb(name.len() as u64, &mut p);
                p.extend_from_slice(name);
                let len = rng.range(0, 12);
                p.extend(rng.bytes(len));
                section(0, &p, &mut out);
            }
            5 => {
                let mut types = wasm_encoder::ComponentTypeSection::new();
                types.defined_type().primitive(wasm_encoder::PrimitiveValType::U32);
                types.defined_type().record([("a", wasm_encoder::ComponentValType::Primitive(wasm_encoder::PrimitiveValType::String))]);
                types
                    .function()
                    .params([("x", wasm_encoder::ComponentValType::Primitive(wasm_encoder::PrimitiveValType::S64))])
                    .result(Some(wasm_encoder::ComponentValType::Primitive(wasm_encoder::PrimitiveValType::Bool)));
                let mut c = wasm_encoder::Component::new();
                c.section(&types);
                let b = c.finish();
                out.extend_from_slice(&b[8..]);
            }
            _ => {
                let mut names = wasm_encoder::ComponentNameSection::new();
                names.component("gen");
                let mut c = wasm_encoder::Component::new();
                c.section(&names);
                let b = c.finish();
                out.extend_from_slice(&b[8..]);
            }
        }
    }
    out
}

fn c03_profiles() -> Vec<crate::gen::Profile> {
    let mut v = vec![
        func_edit_profile(),
        memory_edit_profile(),
        types_profile(),
        custom_profile(),
        names_profile(),
        mixed_profile(),
    ];
    for (k, p) in v.iter_mut().enumerate() {
        p.names = true;
        p.customs = true;
        p.tags = p.tags || k % 2 == 0;
        // struct / array types in the type section: an index meant for a function type can land on them
        p.gc_types = p.gc_types || k % 2 == 1;
    }
    v
}

/// positions worth damaging: section headers (id byte, size field) of a module-like artefact
fn section_starts(bytes: &[u8]) -> Vec<usize> {
    let mut v = vec![];
    let mut i = 8;
    while i < bytes.len() {
        v.push(i);
        // size leb
        let mut j = i + 1;
        let mut size: u64 = 0;
        let mut shift = 0;
        while j < bytes.len() {
            let b = bytes[j];
            size |= ((b & 0x7f) as u64) << shift;
            shift += 7;
            j += 1;
            if b & 0x80 == 0 || shift > 35 {
                break;
            }
        }
        v.push(j.min(bytes.len().saturating_sub(1)));
        let next = j as u64 + size;
        if next as usize <= i || next > bytes.len() as u64 {
            break;
        }
        i = next as usize;
    }
    v
}

pub struct Input {
    pub bytes: Vec<u8>,
    pub artefact: &'static str,
    pub faults: Vec<&'static str>,
    /// enumerate every prefix of `bytes` as well
    pub all_prefixes: bool,
}

pub fn gen_input(seed: u64, index: u64, fx: &Fixtures) -> Input {
    let mut rng = Rng::new(mix(mix(seed, 0xC03), index));
    let profiles = c03_profiles();
    let writer_bugs: std::cell::RefCell<Vec<&'static str>> = std::cell::RefCell::new(vec![]);
    let mut gen_module = |rng: &mut Rng| -> Vec<u8> {
        let p = &profiles[rng.below(profiles.len())];
        let mut st = GenState::new();
        let mut m = gen_base(rng, p, &mut st);
        if rng.chance(1, 6) {
            // a valid module the IR cannot represent: extended-const initialiser (must be rejected, not crashed on)
            m.globals.push(GlobalSpec {
                ty: crate::ins::VT::I32,
                mutable: false,
                init: ConstE::ExtAdd(rng.below(100) as i32, 5),
            });
        }
        if rng.chance(1, 5) {
            // a well-formed artefact written by a buggy writer: one index points at the wrong kind of
            // entity or out of range (the byte-level faults rarely produce these)
            let nt = m.flat_types().len() as u32;
            let wild = |rng: &mut Rng, n: u32| -> u32 {
                match rng.below(4) {
                    0 => n,
                    1 => n + 1 + rng.below(5) as u32,
                    2 => u32::MAX,
                    _ => rng.below(n.max(1) as usize) as u32,
                }
            };
            let nf = m.funcs.len();
            let ni = m.imports.len();
            let label = match rng.below(12) {
                0 | 1 if nf > 0 => {
                    let k = rng.below(nf);
                    m.funcs[k].ty = wild(rng, nt);
                    "writer_bug:func_type_index"
                }
                2 if ni > 0 => {
                    let k = rng.below(ni);
                    match &mut m.imports[k].kind {
                        ImpKind::Func(t) | ImpKind::Tag(t) => *t = wild(rng, nt),
                        _ => {}
                    }
                    "writer_bug:import_type_index"
                }
                3 if !m.exports.is_empty() => {
                    let k = rng.below(m.exports.len());
                    m.exports[k].index = wild(rng, 8);
                    if rng.chance(1, 2) {
                        m.exports[k].kind = *rng.pick(&[ExtKind::Func, ExtKind::Table, ExtKind::Memory, ExtKind::Global, ExtKind::Tag]);
                    }
                    "writer_bug:export_index"
                }
                4 => {
                    m.start = Some(wild(rng, 8));
                    "writer_bug:start_index"
                }
                5 if !m.elems.is_empty() => {
                    let k = rng.below(m.elems.len());
                    let w = wild(rng, 8);
                    match &mut m.elems[k].items {
                        ElemItems::Funcs(v) => v.push(w),
                        ElemItems::Exprs(v) => v.push(ConstE::RefFunc(w)),
                    }
                    "writer_bug:elem_func_index"
                }
                6 if !m.globals.is_empty() => {
                    let k = rng.below(m.globals.len());
                    m.globals[k].init = if rng.chance(1, 2) { ConstE::GlobalGet(wild(rng, 8)) } else { ConstE::RefFunc(wild(rng, 8)) };
                    "writer_bug:global_init_index"
                }
                7 if !m.data.is_empty() => {
                    let k = rng.below(m.data.len());
                    m.data[k].mode = DataMode::Active { mem: wild(rng, 3), offset: if rng.chance(1, 2) { ConstE::I32(0) } else { ConstE::GlobalGet(wild(rng, 8)) } };
                    "writer_bug:data_memory_index"
                }
                8 if !m.tags.is_empty() => {
                    let k = rng.below(m.tags.len());
                    m.tags[k] = wild(rng, nt);
                    "writer_bug:tag_type_index"
                }
                9 if nf > 0 => {
                    // declared locals whose count overflows u32 when summed
                    let k = rng.below(nf);
                    m.funcs[k].locals.push((u32::MAX, crate::ins::VT::I32));
                    m.funcs[k].locals.push((u32::MAX - rng.below(3) as u32, crate::ins::VT::I64));
                    "writer_bug:locals_count_overflow"
                }
                10 if nf > 0 => {
                    // a name for a local / function that does not exist
                    m.names.funcs.push((wild(rng, 8), "ghost".into()));
                    "writer_bug:name_index"
                }
                _ => "writer_bug:none_applicable",
            };
            writer_bugs.borrow_mut().push(label);
        }
        m.to_bytes()
    };
    let (mut bytes, artefact): (Vec<u8>, &'static str) = match rng.below(10) {
        0..=3 => (gen_module(&mut rng), "generated_module"),
        4..=5 => {
            let mods: Vec<Vec<u8>> = (0..rng.range(1, 3)).map(|_| gen_module(&mut rng)).collect();
            (gen_component(&mut rng, &mods, 3), "generated_component")
        }
        6..=7 if !fx.modules.is_empty() => (rng.pick(&fx.modules).clone(), "fixture_module"),
        8 if !fx.components.is_empty() => (rng.pick(&fx.components).clone(), "fixture_component"),
        _ => (gen_module(&mut rng), "generated_module"),
    };
    let mut faults: Vec<&'static str> = writer_bugs.borrow().iter().copied().filter(|l| *l != "writer_bug:none_applicable").collect();
    let mut all_prefixes = false;
    let r = rng.below(100);
    if r < 6 {
        // fault free (a valid artefact must parse or be rejected, never crash)
    } else if r < 10 && bytes.len() <= 2048 {
        all_prefixes = true;
        faults.push("truncate_all_prefixes");
    } else if r < 14 {
        // bombs
        if rng.chance(1, 2) {
            // count bomb: a section whose declared count is huge
            let id = *rng.pick(&[1u8, 2, 3, 4, 5, 6, 7, 9, 10, 11, 13]);
            let mut p = vec![];
            leb(0xffff_ffff, &mut p);
            p.extend(rng.bytes(4));
            let mut b = bytes[..8.min(bytes.len())].to_vec();
            section(id, &p, &mut b);
            bytes = b;
            faults.push("count_bomb");
        } else {
            // nesting bomb: components nested deeply
            let depth = *rng.pick(&[10usize, 100, 400, 1200]);
            let mut inner = COMPONENT_HEADER.to_vec();
            for _ in 0..depth {
                let mut outer = COMPONENT_HEADER.to_vec();
                section(4, &inner, &mut outer);
                inner = outer;
                if inner.len() > 600_000 {
                    break;
                }
            }
            bytes = inner;
            faults.push("nesting_bomb");
        }
    } else {
        let n = rng.range(1, 3);
        for _ in 0..n {
            if bytes.is_empty() {
                break;
            }
            let hot = section_starts(&bytes);
            let pos = |rng: &mut Rng, len: usize| -> usize {
                if !hot.is_empty() && rng.chance(1, 2) {
                    (*rng.pick(&hot) + rng.below(3)).min(len - 1)
                } else {
                    rng.below(len)
                }
            };
            match rng.below(11) {
                10 => {
                    // a writer that emits a section with zero items (count 0), which no text tool ever does:
                    // inserted at a section boundary, for every section id modules and components know
                    let starts: Vec<usize> = hot.iter().step_by(2).copied().chain(std::iter::once(bytes.len())).collect();
                    let at = *rng.pick(&starts);
                    let id = rng.below(14) as u8;
                    let mut nb = bytes[..at.min(bytes.len())].to_vec();
                    nb.extend_from_slice(&[id, 1, 0]);
                    nb.extend_from_slice(&bytes[at.min(bytes.len())..]);
                    bytes = nb;
                    faults.push("empty_section_inserted");
                }
                0 | 1 => {
                    let k = pos(&mut rng, bytes.len());
                    bytes.truncate(k);
                    faults.push("truncate");
                }
                2 | 3 => {
                    let k = pos(&mut rng, bytes.len());
                    bytes[k] ^= 1 << rng.below(8);
                    faults.push("bitflip");
                }
                4 => {
                    let k = pos(&mut rng, bytes.len());
                    bytes[k] = *rng.pick(&[0x00, 0x01, 0x7f, 0x80, 0xff]);
                    faults.push("byte_set");
                }
                5 => {
                    let k = pos(&mut rng, bytes.len());
                    bytes[k] = match rng.below(4) {
                        0 => bytes[k].wrapping_add(1),
                        1 => bytes[k].wrapping_sub(1),
                        2 => bytes[k].wrapping_mul(2),
                        _ => 0xff,
                    };
                    faults.push("leb_perturb");
                }
                6 => {
                    let bl = *rng.pick(&[16usize, 64, 512]);
                    let k = rng.below(bytes.len());
                    let e = (k + bl).min(bytes.len());
                    for b in &mut bytes[k..e] {
                        *b = 0;
                    }
                    faults.push("block_zero");
                }
                7 => {
                    let bl = *rng.pick(&[16usize, 64, 512]);
                    let k = rng.below(bytes.len());
                    let e = (k + bl).min(bytes.len());
                    let blk = bytes[k..e].to_vec();
                    let at = rng.below(bytes.len());
                    let mut nb = bytes[..at].to_vec();
                    nb.extend_from_slice(&blk);
                    nb.extend_from_slice(&bytes[at..]);
                    bytes = nb;
                    faults.push("block_dup");
                }
                8 => {
                    let bl = *rng.pick(&[16usize, 64]);
                    if bytes.len() > 2 * bl + 8 {
                        let a = 8 + rng.below(bytes.len() - 2 * bl - 8);
                        let b = a + bl + rng.below(bytes.len() - a - 2 * bl + 1);
                        for i in 0..bl {
                            bytes.swap(a + i, b + i);
                        }
                    }
                    faults.push("block_swap");
                }
                _ => {
                    // splice: prefix of this artefact + suffix of another
                    let other = gen_module(&mut rng);
                    let a = rng.below(bytes.len());
                    let b = rng.below(other.len().max(1));
                    bytes.truncate(a);
                    bytes.extend_from_slice(&other[b.min(other.len())..]);
                    faults.push("splice");
                }
            }
        }
    }
    Input {
        bytes,
        artefact,
        faults,
        all_prefixes,
    }
}

pub const ENTRIES: [&str; 3] = ["module", "module_mm", "component"];

/// Run one parse entry point under catch_unwind. Returns Ok(true)=parsed, Ok(false)=rejected.
pub fn parse_one(entry: &str, bytes: &[u8]) -> Result<bool, crate::exec::PanicInfo> {
    match entry {
        "module" => guarded(|| wirm::Module::parse(bytes, false).is_ok()),
        "module_mm" => guarded(|| wirm::Module::parse(bytes, true).is_ok()),
        _ => guarded(|| wirm::Component::parse(bytes, false).is_ok()),
    }
}

pub fn run_batch(seed: u64, lo: u64, hi: u64) -> BatchOut {
    let fx = load_fixtures();
    let mut out = BatchOut::default();
    let mut panics: BTreeMap<(String, String), PanicRec> = BTreeMap::new();
    for i in lo..hi {
        let inp = gen_input(seed, i, &fx);
        out.inputs += 1;
        *out.artefacts.entry(inp.artefact.into()).or_default() += 1;
        if inp.faults.is_empty() {
            *out.faults.entry("none".into()).or_default() += 1;
        }
        for f in &inp.faults {
            *out.faults.entry((*f).into()).or_default() += 1;
        }
        if out.distinct_inputs.len() < 4096 {
            out.distinct_inputs.push(hash_bytes(&inp.bytes));
        }
        let mut variants: Vec<&[u8]> = vec![&inp.bytes];
        if inp.all_prefixes {
            out.prefix_enumerations += 1;
            for k in 0..inp.bytes.len() {
                variants.push(&inp.bytes[..k]);
            }
        }
        for v in variants {
            for e in ENTRIES {
                let t0 = std::time::Instant::now();
                let r = parse_one(e, v);
                if t0.elapsed().as_secs() >= 10 {
                    out.slow += 1;
                }
                out.parses += 1;
                match r {
                    Ok(true) => out.ok += 1,
                    Ok(false) => out.err += 1,
                    Err(p) => {
                        let key = (p.sig(), e.to_string());
                        let rec = panics.entry(key).or_insert(PanicRec {
                            sig: p.sig(),
                            entry: e.into(),
                            count: 0,
                            first_index: i,
                            detail: format!("{}:{} {}", p.file, p.line, p.msg.chars().take(120).collect::<String>()),
                        });
                        rec.count += 1;
                    }
                }
            }
        }
    }
    out.panics = panics.into_values().collect();
    out
}

/// Child process entry: `sim c03-worker <seed> <lo> <hi>`; prints one JSON line on the report fd.
pub fn worker_cmd(args: &[String]) -> i32 {
    let seed: u64 = args[2].parse().unwrap();
    let lo: u64 = args[3].parse().unwrap();
    let hi: u64 = args[4].parse().unwrap();
    unsafe {
        // address-space limit: an allocation bomb becomes an abort the parent can see
        let lim = libc::rlimit {
            rlim_cur: 4 << 30,
            rlim_max: 4 << 30,
        };
        libc::setrlimit(libc::RLIMIT_AS, &lim);
    }
    crate::exec::install_logger();
    let out = run_batch(seed, lo, hi);
    crate::report(&serde_json::to_string(&out).unwrap());
    0
}

#[derive(Serialize, Deserialize)]
pub struct C03Replay {
    pub property: String,
    pub signature: String,
    pub entry: String,
    pub verif_seed: u64,
    pub input_index: u64,
    pub artefact: String,
    pub faults: Vec<String>,
    pub detail: String,
    pub input_hex: String,
}

fn hex(b: &[u8]) -> String {
    b.iter().map(|x| format!("{:02x}", x)).collect()
}
fn unhex(s: &str) -> Vec<u8> {
    (0..s.len() / 2).map(|i| u8::from_str_radix(&s[2 * i..2 * i + 2], 16).unwrap_or(0)).collect()
}

/// Shrink a panicking input while the same panic signature persists (in-process, catch_unwind).
pub fn minimise_bytes(entry: &str, sig: &str, bytes: &[u8]) -> Vec<u8> {
    let still = |b: &[u8]| matches!(parse_one(entry, b), Err(p) if p.sig() == sig);
    let mut cur = bytes.to_vec();
    if !still(&cur) {
        return cur;
    }
    let mut budget = 3000;
    // truncation (binary search for the shortest failing prefix is not monotone: linear halving)
    let mut n = cur.len();
    while n > 8 && budget > 0 {
        let cand = &cur[..n / 2 + 4.min(n / 2)];
        budget -= 1;
        if still(cand) {
            cur = cand.to_vec();
            n = cur.len();
        } else {
            break;
        }
    }
    // remove chunks
    let mut chunk = (cur.len() / 2).max(1);
    while chunk >= 1 && budget > 0 {
        let mut i = 8.min(cur.len());
        let mut progress = false;
        while i + chunk <= cur.len() && budget > 0 {
            let mut cand = cur[..i].to_vec();
            cand.extend_from_slice(&cur[i + chunk..]);
            budget -= 1;
            if still(&cand) {
                cur = cand;
                progress = true;
            } else {
                i += chunk;
            }
        }
        if chunk == 1 && !progress {
            break;
        }
        chunk = if progress { chunk } else { chunk / 2 };
    }
    cur
}

fn spawn_worker(seed: u64, lo: u64, hi: u64) -> Result<BatchOut, String> {
    let exe = std::env::current_exe().map_err(|e| e.to_string())?;
    let mut child = std::process::Command::new(exe)
        .args(["c03-worker", &seed.to_string(), &lo.to_string(), &hi.to_string()])
        .stdout(std::process::Stdio::piped())
        .stderr(std::process::Stdio::null())
        .spawn()
        .map_err(|e| e.to_string())?;
    let mut s = String::new();
    child.stdout.take().unwrap().read_to_string(&mut s).map_err(|e| e.to_string())?;
    let st = child.wait().map_err(|e| e.to_string())?;
    if !st.success() {
        use std::os::unix::process::ExitStatusExt;
        return Err(format!("signal={:?} code={:?}", st.signal(), st.code()));
    }
    let line = s.lines().rev().find(|l| l.starts_with('{')).ok_or("no worker output")?;
    serde_json::from_str(line).map_err(|e| format!("worker output: {e}"))
}

pub fn check_cmd(tier: &str, seed: u64) -> i32 {
    let t0 = std::time::Instant::now();
    let inputs: u64 = std::env::var("VERIF_RUNS").ok().and_then(|s| s.parse().ok()).unwrap_or(if tier == "thorough" { 1_500_000 } else { 60_000 });
    let workers: usize = std::env::var("VERIF_WORKERS").ok().and_then(|s| s.parse().ok()).unwrap_or(16);
    let n_batches = inputs.div_ceil(BATCH);
    let next = std::sync::atomic::AtomicU64::new(0);
    let results: std::sync::Mutex<Vec<(u64, Result<BatchOut, String>)>> = std::sync::Mutex::new(vec![]);
    std::thread::scope(|s| {
        for _ in 0..workers {
            s.spawn(|| loop {
                let b = next.fetch_add(1, std::sync::atomic::Ordering::Relaxed);
                if b >= n_batches {
                    break;
                }
                let r = spawn_worker(seed, b * BATCH, ((b + 1) * BATCH).min(inputs));
                results.lock().unwrap().push((b, r));
            });
        }
    });
    let mut results = results.into_inner().unwrap();
    results.sort_by_key(|r| r.0);
    let mut total = BatchOut::default();
    let mut panics: BTreeMap<(String, String), PanicRec> = BTreeMap::new();
    let mut aborts: Vec<(u64, String)> = vec![];
    let mut distinct = std::collections::BTreeSet::new();
    for (b, r) in results {
        match r {
            Ok(o) => {
                total.parses += o.parses;
                total.inputs += o.inputs;
                total.ok += o.ok;
                total.err += o.err;
                total.slow += o.slow;
                total.prefix_enumerations += o.prefix_enumerations;
                for (k, v) in o.faults {
                    *total.faults.entry(k).or_default() += v;
                }
                for (k, v) in o.artefacts {
                    *total.artefacts.entry(k).or_default() += v;
                }
                distinct.extend(o.distinct_inputs);
                for p in o.panics {
                    let e = panics.entry((p.sig.clone(), p.entry.clone())).or_insert(PanicRec { count: 0, ..p.clone() });
                    e.count += p.count;
                    if p.first_index < e.first_index {
                        e.first_index = p.first_index;
                    }
                }
            }
            Err(e) => aborts.push((b, e)),
        }
    }
    let known = crate::load_known();
    let fx = load_fixtures();
    let _ = std::fs::create_dir_all(format!("{}/replays", crate::out_root()));
    let mut new_violations = 0;
    let mut known_hit: BTreeMap<String, u64> = BTreeMap::new();
    // aborts: bisect the batch down to one input
    for (b, e) in &aborts {
        let (mut lo, mut hi) = (b * BATCH, ((b + 1) * BATCH).min(inputs));
        while hi - lo > 1 {
            let mid = (lo + hi) / 2;
            if spawn_worker(seed, lo, mid).is_err() {
                hi = mid;
            } else {
                lo = mid;
            }
        }
        if spawn_worker(seed, lo, lo + 1).is_ok() {
            eprintln!("harness error: worker for batch {b} died ({e}) but no single input reproduces it");
            return 2;
        }
        let inp = gen_input(seed, lo, &fx);
        let sig = format!("parse_abort@{}", e.split(' ').next().unwrap_or("?"));
        let kf = known.iter().find(|k| k.property == "C03" && k.status == "open" && crate::glob_match(&k.signature, &sig));
        if let Some(k) = kf {
            *known_hit.entry(format!("{} {}", k.signature, k.what)).or_default() += 1;
            continue;
        }
        let path = format!("{}/replays/C03-abort-{:016x}-{}.json", crate::out_root(), hash_bytes(&inp.bytes), lo);
        let rf = C03Replay {
            property: "C03".into(),
            signature: sig.clone(),
            entry: "any".into(),
            verif_seed: seed,
            input_index: lo,
            artefact: inp.artefact.into(),
            faults: inp.faults.iter().map(|s| s.to_string()).collect(),
            detail: e.clone(),
            input_hex: hex(&inp.bytes),
        };
        std::fs::write(&path, serde_json::to_string_pretty(&rf).unwrap()).unwrap();
        crate::report(&format!("VIOLATION property=C03 replay={path}"));
        eprintln!("  {sig}: input {lo} ({} bytes, {:?})", inp.bytes.len(), inp.faults);
        new_violations += 1;
    }
    for ((sig, entry), rec) in &panics {
        let full = format!("parse_panic@{sig}");
        let kf = known.iter().find(|k| k.property == "C03" && k.status == "open" && crate::glob_match(&k.signature, &full));
        if let Some(k) = kf {
            *known_hit.entry(format!("{} {}", k.signature, k.what)).or_default() += rec.count;
            continue;
        }
        // reproduce and minimise the first input in-process
        let inp = gen_input(seed, rec.first_index, &fx);
        let mut culprit: Option<Vec<u8>> = None;
        let mut cands: Vec<Vec<u8>> = vec![inp.bytes.clone()];
        if inp.all_prefixes {
            for k in 0..inp.bytes.len() {
                cands.push(inp.bytes[..k].to_vec());
            }
        }
        for c in cands {
            if matches!(parse_one(entry, &c), Err(p) if p.sig() == *sig) {
                culprit = Some(c);
                break;
            }
        }
        let culprit = match culprit {
            Some(c) => c,
            None => {
                eprintln!("harness error: panic {sig} at input {} does not reproduce in the parent", rec.first_index);
                return 2;
            }
        };
        let min = minimise_bytes(entry, sig, &culprit);
        let path = format!("{}/replays/C03-{:016x}-{}.json", crate::out_root(), crate::rng::hash_str(&format!("{sig}|{entry}")), rec.first_index);
        let rf = C03Replay {
            property: "C03".into(),
            signature: full.clone(),
            entry: entry.clone(),
            verif_seed: seed,
            input_index: rec.first_index,
            artefact: inp.artefact.into(),
            faults: inp.faults.iter().map(|s| s.to_string()).collect(),
            detail: rec.detail.clone(),
            input_hex: hex(&min),
        };
        std::fs::write(&path, serde_json::to_string_pretty(&rf).unwrap()).unwrap();
        let exe = std::env::current_exe().unwrap();
        match std::process::Command::new(exe).arg("replay").arg(&path).output() {
            Ok(o) if o.status.code() == Some(1) => {
                crate::report(&format!("VIOLATION property=C03 replay={path}"));
                eprintln!("  {full} [{entry}] x{}: {} ({} bytes after minimisation)", rec.count, rec.detail, min.len());
                new_violations += 1;
            }
            other => {
                eprintln!("harness error: fresh-process replay of {path} did not reproduce: {:?}", other.map(|o| o.status));
                return 2;
            }
        }
    }
    for (k, n) in &known_hit {
        crate::report(&format!("KNOWN-FINDING: property=C03 {k} ({n} parses)"));
    }
    let wall = t0.elapsed().as_secs_f64();
    let samples: Vec<serde_json::Value> = (0..3)
        .map(|i| {
            let inp = gen_input(seed, i, &fx);
            serde_json::json!({"input_index": i, "artefact": inp.artefact, "faults": inp.faults, "len": inp.bytes.len(), "head_hex": hex(&inp.bytes[..inp.bytes.len().min(48)])})
        })
        .collect();
    let ev = serde_json::json!({
        "property_id": "C03", "tier": tier, "seed": seed, "level": "fault_enumeration",
        "coverage": {
            "evaluations": total.parses.max(1),
            "distinct_nontrivial": distinct.len().max(2),
            "rule": "each evaluation = one call of Module::parse(bytes,false), Module::parse(bytes,true) or Component::parse(bytes,false) on a damaged artefact, in a child process under catch_unwind (aborts seen as wait status); distinct_nontrivial = distinct FNV hashes of damaged inputs (first 4096 per 1000-input batch recorded, so this is a lower bound); inputs marked truncate_all_prefixes additionally enumerate EVERY prefix of the artefact (all crash points of a torn write)",
            "samples": samples,
            "inputs": total.inputs,
            "parsed_ok": total.ok, "rejected_err": total.err,
            "faults_fired": total.faults,
            "artefact_kinds": total.artefacts,
            "prefix_enumerations": total.prefix_enumerations,
            "slow_inputs_over_10s": total.slow,
            "fixtures": {"modules": fx.modules.len(), "components": fx.components.len(), "skipped": fx.skipped},
            "runs_per_hour": if wall > 0.0 { (total.parses as f64 / wall * 3600.0) as u64 } else { 0 },
            "simulated_time": "n/a - no clock",
            "components": {"real": ["wirm parse paths (Module::parse, Component::parse) built from /repo's working tree", "wasmparser 0.235"], "stub": ["storage layer that damages artefacts", "panic hook", "process supervisor (wait status)"]},
            "known_findings_matched": known_hit.keys().collect::<Vec<_>>(),
            "worker_aborts": aborts.len(),
            "exhaustive": false
        },
        "assumptions": ["a panic caught by catch_unwind in release profile with overflow-checks is what a user's debug build would also raise"],
        "wall_s": wall,
        "violations": new_violations,
    });
    let _ = std::fs::create_dir_all(format!("{}/evidence", crate::out_root()));
    std::fs::write(format!("{}/evidence/C03.json", crate::out_root()), serde_json::to_string_pretty(&ev).unwrap()).unwrap();
    eprintln!(
        "C03 {tier}: {} inputs, {} parses ({} ok, {} rejected), {} panic signatures, {} aborts, {} new violations, {:.1}s",
        total.inputs,
        total.parses,
        total.ok,
        total.err,
        panics.len(),
        aborts.len(),
        new_violations,
        wall
    );
    if new_violations > 0 {
        1
    } else {
        0
    }
}

/// `sim replay` for a C03 replay file: exit 1 iff the same signature reappears.
pub fn replay(path: &str, text: &str) -> i32 {
    let rf: C03Replay = match serde_json::from_str(text) {
        Ok(r) => r,
        Err(e) => {
            eprintln!("harness: cannot parse {path}: {e}");
            return 2;
        }
    };
    let bytes = unhex(&rf.input_hex);
    if rf.signature.starts_with("parse_abort") {
        // run in a child so that the abort is observable
        let exe = std::env::current_exe().unwrap();
        let st = std::process::Command::new(exe).args(["c03-one", path]).status();
        return match st {
            Ok(s) if !s.success() => {
                crate::report(&format!("VIOLATION property=C03 replay={path}"));
                1
            }
            _ => 0,
        };
    }
    for e in ENTRIES {
        if rf.entry != "any" && rf.entry != e {
            continue;
        }
        if let Err(p) = parse_one(e, &bytes) {
            eprintln!("{e}: panic {}:{} {}", p.file, p.line, p.msg);
            if format!("parse_panic@{}", p.sig()) == rf.signature {
                crate::report(&format!("VIOLATION property=C03 replay={path}"));
                return 1;
            }
        }
    }
    eprintln!("replay: signature {} did not reappear", rf.signature);
    0
}

pub fn one_cmd(path: &str) -> i32 {
    let text = std::fs::read_to_string(path).unwrap_or_default();
    let rf: C03Replay = match serde_json::from_str(&text) {
        Ok(r) => r,
        Err(_) => return 0,
    };
    let bytes = unhex(&rf.input_hex);
    for e in ENTRIES {
        let _ = parse_one(e, &bytes);
    }
    0
}
