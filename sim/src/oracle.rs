//! Structural oracle: compares the decoded output of the library with the reference model and
//! emits typed mismatches. Nothing here assumes an output order: output indices are mapped to
//! fingerprints through the output's own sections.
use crate::decode::decode;
use crate::exec::{OpOutcome, PanicInfo, RunResult, Scenario, TailOutcome};
use crate::ins::{Ins, VT};
use crate::model::*;
use crate::spec::*;
use serde::Serialize;
use std::collections::BTreeMap;

#[derive(Clone, Debug, Serialize, PartialEq, Eq)]
pub struct Mismatch {
    pub kind: String,
    pub site: String,
    pub detail: String,
}
impl Mismatch {
    pub fn new(kind: &str, site: &str, detail: String) -> Self {
        Mismatch {
            kind: kind.into(),
            site: site.into(),
            detail,
        }
    }
    pub fn sig(&self) -> String {
        format!("{}@{}", self.kind, self.site)
    }
}

pub struct OutMaps {
    pub funcs: Vec<Fp>,
    pub globals: Vec<Fp>,
    pub mems: Vec<Fp>,
    pub n_imp_funcs: u32,
    pub n_imp_globals: u32,
}

pub fn out_maps(out: &ModuleSpec) -> OutMaps {
    let mut m = OutMaps {
        funcs: vec![],
        globals: vec![],
        mems: vec![],
        n_imp_funcs: 0,
        n_imp_globals: 0,
    };
    for i in &out.imports {
        let fp = Fp::Imp(i.module.clone(), i.name.clone());
        match i.kind {
            ImpKind::Func(_) => m.funcs.push(fp),
            ImpKind::Global { .. } => m.globals.push(fp),
            ImpKind::Memory(_) => m.mems.push(fp),
            _ => {}
        }
    }
    m.n_imp_funcs = m.funcs.len() as u32;
    m.n_imp_globals = m.globals.len() as u32;
    for (k, f) in out.funcs.iter().enumerate() {
        m.funcs.push(match func_magic_of(&f.body) {
            Some(x) => Fp::Magic(x),
            None => Fp::Unknown(format!("local func {k} without magic")),
        });
    }
    for g in &out.globals {
        m.globals.push(global_fp(g.ty, g.mutable, &g.init));
    }
    for t in &out.memories {
        m.mems.push(Fp::MemMin(t.min));
    }
    m
}

fn fp_s(f: &Option<Fp>) -> String {
    match f {
        None => "<deleted/out-of-range>".into(),
        Some(f) => format!("{:?}", f),
    }
}

/// An instruction with its entity references replaced by fingerprints.
#[derive(Clone, Debug, PartialEq)]
pub struct RIns {
    pub ins: Ins,
    pub refs: Vec<Option<Fp>>,
}

pub fn resolve(
    i: &Ins,
    f: &dyn Fn(u32) -> Option<Fp>,
    g: &dyn Fn(u32) -> Option<Fp>,
    m: &dyn Fn(u32) -> Option<Fp>,
) -> RIns {
    let refs = std::cell::RefCell::new(vec![]);
    let ins = i.map_refs(
        &mut |x| {
            refs.borrow_mut().push(f(x));
            0
        },
        &mut |x| {
            refs.borrow_mut().push(g(x));
            0
        },
        &mut |x| {
            refs.borrow_mut().push(m(x));
            0
        },
    );
    let refs = refs.into_inner();
    RIns { ins, refs }
}

fn ref_site(i: &Ins) -> (&'static str, String) {
    if let Some((s, _)) = i.func_ref() {
        return ("func_ref", s.into());
    }
    if let Some((s, _)) = i.global_ref() {
        return ("global_ref", s.into());
    }
    if let Some((s, _)) = i.mem_refs() {
        return ("mem_ref", s.into());
    }
    ("body_sequence", "?".into())
}

/// The lowering the property texts state: C15 (before / replacement-or-instruction / after; at
/// the final end only before) and C21 (region replaced by the block-alternate). Returns None if
/// the function carries special modes whose lowering the properties do not fix structurally.
/// `mask[i]` = instruction i lies strictly inside a construct or else-arm that is replaced through
/// block-alternate (between the opener / `else` and the closing `end`, both excluded): it is removed
/// together with whatever instrumentation it carries.
pub fn removed_mask(l: &MLocal) -> Vec<bool> {
    let n = l.body.len();
    let mut mask = vec![false; n];
    let mut i = 0;
    while i < n {
        if l.body[i].block_alt.is_some() && l.body[i].ins.is_block_style() {
            if let Some((a, b)) = block_region(&l.body, i) {
                // opener: (a, matching end); else: (else, last instruction of the arm)
                let last_inside = if matches!(l.body[i].ins, Ins::Else) { b } else { b.saturating_sub(1) };
                for m in mask.iter_mut().take(last_inside + 1).skip(a + 1) {
                    *m = true;
                }
                i = last_inside + 1;
                continue;
            }
        }
        i += 1;
    }
    mask
}

pub fn expected_body(l: &MLocal) -> Option<Vec<(Ins, String)>> {
    if !l.entry.ins.is_empty() || !l.exit.ins.is_empty() {
        return None;
    }
    let mask = removed_mask(l);
    if l.body.iter().enumerate().any(|(k, i)| !mask[k] && (!i.sem_after.ins.is_empty() || !i.block_entry.ins.is_empty() || !i.block_exit.ins.is_empty())) {
        return None;
    }
    let n = l.body.len();
    let mut out: Vec<(Ins, String)> = vec![];
    let mut i = 0;
    while i < n {
        let mi = &l.body[i];
        let at_end = i + 1 == n;
        if let Some(ba) = &mi.block_alt {
            match mi.ins {
                Ins::Block(_) | Ins::Loop(_) | Ins::If(_) => {
                    for x in &mi.before.ins {
                        out.push((x.clone(), format!("before[{i}]")));
                    }
                    for x in &ba.ins {
                        out.push((x.clone(), format!("block_alt[{i}]")));
                    }
                    // skip through the matching end
                    let mut depth = 0;
                    let mut j = i;
                    loop {
                        match l.body[j].ins {
                            Ins::Block(_) | Ins::Loop(_) | Ins::If(_) | Ins::TryTable(..) => depth += 1,
                            Ins::End => {
                                depth -= 1;
                                if depth == 0 {
                                    break;
                                }
                            }
                            _ => {}
                        }
                        j += 1;
                        if j >= n {
                            return None;
                        }
                    }
                    // after-code of the matching end still follows the construct
                    for x in &l.body[j].after.ins {
                        out.push((x.clone(), format!("after[{j}]")));
                    }
                    i = j + 1;
                    continue;
                }
                Ins::Else => {
                    for x in &mi.before.ins {
                        out.push((x.clone(), format!("before[{i}]")));
                    }
                    for x in &ba.ins {
                        out.push((x.clone(), format!("block_alt[{i}]")));
                    }
                    // skip the else-arm up to (not including) the if's end
                    let mut depth = 0;
                    let mut j = i + 1;
                    loop {
                        match l.body[j].ins {
                            Ins::Block(_) | Ins::Loop(_) | Ins::If(_) | Ins::TryTable(..) => depth += 1,
                            Ins::End => {
                                if depth == 0 {
                                    break;
                                }
                                depth -= 1;
                            }
                            _ => {}
                        }
                        j += 1;
                        if j >= n {
                            return None;
                        }
                    }
                    i = j;
                    continue;
                }
                _ => return None, // block-alt accepted on a non-block opcode: no stated lowering
            }
        }
        for x in &mi.before.ins {
            out.push((x.clone(), format!("before[{i}]")));
        }
        match (&mi.alternate, at_end) {
            (Some(a), false) => {
                for x in &a.ins {
                    out.push((x.clone(), format!("alternate[{i}]")));
                }
            }
            _ => out.push((mi.ins.clone(), format!("orig[{i}]"))),
        }
        if !at_end {
            for x in &mi.after.ins {
                out.push((x.clone(), format!("after[{i}]")));
            }
        }
        i += 1;
    }
    Some(out)
}

fn expand(l: &[(u32, VT)]) -> Vec<VT> {
    let mut v = vec![];
    for (n, t) in l {
        for _ in 0..*n {
            v.push(*t);
        }
    }
    v
}

pub struct CheckOpts {
    pub check_names: bool,
}

/// Compare one successful encoding with the model.
pub fn check_output(model: &Model, bytes: &[u8]) -> Result<Vec<Mismatch>, String> {
    let mut mm = vec![];
    let (df, dg, dm) = model.dangling();
    let dangling_non_start = {
        // is there a dangling reference other than the start function?
        let mut m2 = model.clone();
        m2.start = None;
        let (a, b, c) = m2.dangling();
        !a.is_empty() || !b.is_empty() || !c.is_empty()
    };
    if dangling_non_start {
        mm.push(Mismatch::new(
            "silent_success_on_dangling_ref",
            &format!(
                "{}",
                if !df.is_empty() {
                    "func"
                } else if !dg.is_empty() {
                    "global"
                } else {
                    "memory"
                }
            ),
            format!("encoding succeeded although deleted entities are still referenced: funcs {:?} globals {:?} mems {:?}", df, dg, dm),
        ));
        return Ok(mm);
    }
    let valid = validate(bytes);
    let out = match decode(bytes) {
        Ok(o) => o,
        Err(e) => {
            return match valid {
                Err(v) => Ok(vec![Mismatch::new("invalid_output", "decode", format!("{v} / {e}"))]),
                Ok(()) => Err(format!("harness: valid output not decodable: {e}")),
            }
        }
    };
    if let Err(e) = &valid {
        let short: String = e.split(" (at offset").next().unwrap_or(e).chars().take(60).collect();
        let short: String = short.chars().map(|c| if c.is_ascii_digit() { '#' } else { c }).collect();
        mm.push(Mismatch::new("invalid_output", &short, e.clone()));
    }
    let maps = out_maps(&out);
    // ---------- entities
    let ms = |v: Vec<Fp>| {
        let mut m: BTreeMap<Fp, i32> = BTreeMap::new();
        for f in v {
            *m.entry(f).or_default() += 1;
        }
        m
    };
    let cmp_sets = |kind: &str, exp: Vec<Fp>, act: Vec<Fp>, mm: &mut Vec<Mismatch>| {
        let (e, a) = (ms(exp), ms(act));
        for (k, n) in &e {
            let got = a.get(k).copied().unwrap_or(0);
            if got < *n {
                mm.push(Mismatch::new("entity_missing", kind, format!("{:?} expected {n} found {got}", k)));
            }
        }
        for (k, n) in &a {
            let want = e.get(k).copied().unwrap_or(0);
            if want < *n {
                mm.push(Mismatch::new("entity_extra", kind, format!("{:?} expected {want} found {n}", k)));
            }
        }
    };
    cmp_sets(
        "func",
        model.alive_funcs().iter().filter_map(|f| model.func_fp(*f)).collect(),
        maps.funcs.clone(),
        &mut mm,
    );
    cmp_sets(
        "global",
        model.alive_globals().iter().filter_map(|f| model.global_fp(*f)).collect(),
        maps.globals.clone(),
        &mut mm,
    );
    cmp_sets(
        "memory",
        model.alive_mems().iter().filter_map(|f| model.mem_fp(*f)).collect(),
        maps.mems.clone(),
        &mut mm,
    );
    // imports: kind and type of every alive import
    let out_types: Vec<SubT> = out.flat_types().into_iter().cloned().collect();
    for i in model.imports.iter().filter(|i| !i.deleted) {
        let found = out.imports.iter().find(|o| o.module == i.spec.module && o.name == i.spec.name);
        match found {
            None => mm.push(Mismatch::new("entity_missing", "import", format!("{}/{}", i.spec.module, i.spec.name))),
            Some(o) => {
                let same = match (&o.kind, &i.spec.kind) {
                    (ImpKind::Func(a), ImpKind::Func(b)) => out_types.get(*a as usize) == model.types.get(*b as usize).map(|t| &t.ty),
                    (ImpKind::Tag(a), ImpKind::Tag(b)) => out_types.get(*a as usize) == model.types.get(*b as usize).map(|t| &t.ty),
                    (a, b) => a == b,
                };
                if !same {
                    mm.push(Mismatch::new(
                        "entity_changed",
                        "import.type",
                        format!("{}/{}: {:?} vs requested {:?}", i.spec.module, i.spec.name, o.kind, i.spec.kind),
                    ));
                } else if let (true, ImpKind::Func(a), ImpKind::Func(b)) = (i.added, &o.kind, &i.spec.kind) {
                    // an import made through the API carries the type ID the caller gave (types keep their
                    // index, C13): a structurally equal duplicate at another index is not what was asked for
                    if a != b {
                        mm.push(Mismatch::new(
                            "entity_changed",
                            "import.type",
                            format!("{}/{}: type index {a} although type ID {b} was given (structurally equal types)", i.spec.module, i.spec.name),
                        ));
                    }
                }
            }
        }
    }
    for o in &out.imports {
        if !model.imports.iter().any(|i| !i.deleted && o.module == i.spec.module && o.name == i.spec.name) {
            mm.push(Mismatch::new("entity_extra", "import", format!("{}/{}", o.module, o.name)));
        }
    }
    // ---------- reference resolution helpers
    let ef = |id: u32| model.func_fp(id);
    let eg = |id: u32| model.global_fp(id);
    let em = |id: u32| model.mem_fp(id);
    let af = |i: u32| Some(maps.funcs.get(i as usize).cloned().unwrap_or(Fp::Unknown(format!("func index {i} out of range"))));
    let ag = |i: u32| Some(maps.globals.get(i as usize).cloned().unwrap_or(Fp::Unknown(format!("global index {i} out of range"))));
    let am = |i: u32| Some(maps.mems.get(i as usize).cloned().unwrap_or(Fp::Unknown(format!("memory index {i} out of range"))));
    let cmp_const = |what: &str, e: &ConstE, a: &ConstE, mm: &mut Vec<Mismatch>| match (e, a) {
        (ConstE::GlobalGet(x), ConstE::GlobalGet(y)) => {
            if eg(*x) != ag(*y) {
                mm.push(Mismatch::new("global_ref", &format!("global.get({what})"), format!("expected {} got {}", fp_s(&eg(*x)), fp_s(&ag(*y)))));
            }
        }
        (ConstE::RefFunc(x), ConstE::RefFunc(y)) => {
            if ef(*x) != af(*y) {
                mm.push(Mismatch::new("func_ref", &format!("ref.func({what})"), format!("expected {} got {}", fp_s(&ef(*x)), fp_s(&af(*y)))));
            }
        }
        (ConstE::StructNew(t1, f1), ConstE::StructNew(t2, f2)) if t1 == t2 && f1.len() == f2.len() => {
            // every reference of a multi-reference initialiser
            for (x, y) in f1.iter().zip(f2.iter()) {
                match (x, y) {
                    (ConstE::GlobalGet(p), ConstE::GlobalGet(q)) => {
                        if eg(*p) != ag(*q) {
                            mm.push(Mismatch::new("global_ref", &format!("global.get({what})"), format!("(struct field) expected {} got {}", fp_s(&eg(*p)), fp_s(&ag(*q)))));
                        }
                    }
                    (ConstE::RefFunc(p), ConstE::RefFunc(q)) => {
                        if ef(*p) != af(*q) {
                            mm.push(Mismatch::new("func_ref", &format!("ref.func({what})"), format!("(struct field) expected {} got {}", fp_s(&ef(*p)), fp_s(&af(*q)))));
                        }
                    }
                    (p, q) => {
                        if p != q {
                            mm.push(Mismatch::new("entity_changed", &format!("{what}.const"), format!("(struct field) expected {:?} got {:?}", p, q)));
                        }
                    }
                }
            }
        }
        (e, a) => {
            if e != a {
                mm.push(Mismatch::new("entity_changed", &format!("{what}.const"), format!("expected {:?} got {:?}", e, a)));
            }
        }
    };
    // ---------- exports
    let exp_exports: Vec<&MExport> = model.exports.iter().filter(|e| !e.deleted).collect();
    if exp_exports.len() != out.exports.len() {
        mm.push(Mismatch::new(
            if exp_exports.len() > out.exports.len() { "entity_missing" } else { "entity_extra" },
            "export",
            format!("expected {} exports, found {}", exp_exports.len(), out.exports.len()),
        ));
    }
    for e in &exp_exports {
        match out.exports.iter().find(|o| o.name == e.name) {
            None => {
                let site = match e.kind {
                    ExtKind::Func => "export(func)",
                    ExtKind::Global => "export(global)",
                    ExtKind::Memory => "export(memory)",
                    _ => "export",
                };
                // an export added through the API that does not appear is a C30 matter as well
                let site = if e.added { format!("{site}(added)") } else { site.to_string() };
                mm.push(Mismatch::new("entity_missing", &site, e.name.clone()))
            }
            Some(o) => {
                if o.kind != e.kind {
                    mm.push(Mismatch::new("entity_changed", "export.kind", format!("{}: {:?} vs {:?}", e.name, o.kind, e.kind)));
                    continue;
                }
                let (kind, ex, ac) = match e.kind {
                    ExtKind::Func => ("func_ref", ef(e.index), af(o.index)),
                    ExtKind::Global => ("global_ref", eg(e.index), ag(o.index)),
                    ExtKind::Memory => ("mem_ref", em(e.index), am(o.index)),
                    _ => {
                        if e.index != o.index {
                            mm.push(Mismatch::new("entity_changed", "export.index", format!("{}: {} vs {}", e.name, o.index, e.index)));
                        }
                        continue;
                    }
                };
                if ex != ac {
                    mm.push(Mismatch::new(
                        kind,
                        if e.added { "export(added)" } else { "export" },
                        format!("export {:?}: expected {} got {}", e.name, fp_s(&ex), fp_s(&ac)),
                    ));
                }
            }
        }
    }
    // ---------- start
    match (model.start, out.start) {
        (Some(s), Some(o)) => {
            if ef(s) != af(o) {
                mm.push(Mismatch::new("func_ref", "start", format!("expected {} got {}", fp_s(&ef(s)), fp_s(&af(o)))));
            }
        }
        (Some(s), None) => {
            if ef(s).is_some() {
                mm.push(Mismatch::new("entity_missing", "start", "start section dropped".into()));
            }
        }
        (None, Some(_)) => mm.push(Mismatch::new("entity_extra", "start", "start section appeared".into())),
        (None, None) => {}
    }
    // ---------- elements
    if model.elems.len() != out.elems.len() {
        mm.push(Mismatch::new("entity_changed", "elem.count", format!("{} vs {}", out.elems.len(), model.elems.len())));
    } else {
        for (e, o) in model.elems.iter().zip(out.elems.iter()) {
            match (&e.mode, &o.mode) {
                (ElemMode::Active { table: t1, offset: o1 }, ElemMode::Active { table: t2, offset: o2 }) => {
                    if t1.unwrap_or(0) != t2.unwrap_or(0) {
                        mm.push(Mismatch::new("entity_changed", "elem.table", format!("{:?} vs {:?}", t2, t1)));
                    }
                    cmp_const("elem.offset", o1, o2, &mut mm);
                }
                (a, b) if a == b => {}
                (a, b) => mm.push(Mismatch::new("entity_changed", "elem.mode", format!("{:?} vs {:?}", b, a))),
            }
            match (&e.items, &o.items) {
                (ElemItems::Funcs(a), ElemItems::Funcs(b)) => {
                    if a.len() != b.len() {
                        mm.push(Mismatch::new("entity_changed", "elem.len", format!("{} vs {}", b.len(), a.len())));
                    }
                    for (x, y) in a.iter().zip(b.iter()) {
                        if ef(*x) != af(*y) {
                            mm.push(Mismatch::new("func_ref", "elem", format!("expected {} got {}", fp_s(&ef(*x)), fp_s(&af(*y)))));
                        }
                    }
                }
                (ElemItems::Exprs(a), ElemItems::Exprs(b)) => {
                    if a.len() != b.len() {
                        mm.push(Mismatch::new("entity_changed", "elem.len", format!("{} vs {}", b.len(), a.len())));
                    }
                    for (x, y) in a.iter().zip(b.iter()) {
                        cmp_const("elem.expr", x, y, &mut mm);
                    }
                }
                (a, b) => mm.push(Mismatch::new("entity_changed", "elem.items", format!("{:?} vs {:?}", b, a))),
            }
        }
    }
    // ---------- tables
    if model.tables.len() == out.tables.len() {
        for (e, o) in model.tables.iter().zip(out.tables.iter()) {
            if e.ty != o.ty {
                mm.push(Mismatch::new("entity_changed", "table.type", format!("{:?} vs {:?}", o.ty, e.ty)));
            }
            match (&e.init, &o.init) {
                (Some(a), Some(b)) => cmp_const("table.init", a, b, &mut mm),
                (None, None) => {}
                (a, b) => mm.push(Mismatch::new("entity_changed", "table.init", format!("{:?} vs {:?}", b, a))),
            }
        }
    } else {
        mm.push(Mismatch::new("entity_changed", "table.count", format!("{} vs {}", out.tables.len(), model.tables.len())));
    }
    // ---------- data
    if model.data.len() != out.data.len() {
        mm.push(Mismatch::new("entity_changed", "data.count", format!("{} vs {}", out.data.len(), model.data.len())));
    } else {
        for (k, (e, o)) in model.data.iter().zip(out.data.iter()).enumerate() {
            let w = if e.added { "data(added)" } else { "data" };
            if e.bytes != o.bytes {
                mm.push(Mismatch::new("entity_changed", &format!("{w}.bytes"), format!("segment {k}")));
            }
            match (&e.mode, &o.mode) {
                (DataMode::Passive, DataMode::Passive) => {}
                (DataMode::Active { mem: m1, offset: o1 }, DataMode::Active { mem: m2, offset: o2 }) => {
                    if em(*m1) != am(*m2) {
                        mm.push(Mismatch::new("mem_ref", "data.mem", format!("segment {k}: expected {} got {}", fp_s(&em(*m1)), fp_s(&am(*m2)))));
                    }
                    cmp_const("data.offset", o1, o2, &mut mm);
                }
                (a, b) => mm.push(Mismatch::new("entity_changed", &format!("{w}.mode"), format!("{:?} vs {:?}", b, a))),
            }
        }
    }
    // ---------- globals (local): type, mutability, initialiser
    for id in model.alive_globals() {
        if let MGK::Local { ty, mutable, init, fp } = &model.globals[id as usize].kind {
            let w = if model.globals[id as usize].added { "global(added)" } else { "global" };
            let hits: Vec<&GlobalSpec> = out
                .globals
                .iter()
                .enumerate()
                .filter(|(k, _)| maps.globals[maps.n_imp_globals as usize + k] == *fp)
                .map(|(_, g)| g)
                .collect();
            if let Some(o) = hits.first() {
                if o.ty != *ty {
                    mm.push(Mismatch::new("entity_changed", &format!("{w}.type"), format!("{:?} vs {:?}", o.ty, ty)));
                }
                if o.mutable != *mutable {
                    mm.push(Mismatch::new("entity_changed", &format!("{w}.mutable"), format!("{:?}", fp)));
                }
                cmp_const("global.init", init, &o.init, &mut mm);
            }
        }
    }
    for id in model.alive_globals() {
        if let MGK::Import { imp, ty, mutable } = &model.globals[id as usize].kind {
            let s = &model.imports[*imp as usize].spec;
            if let Some(o) = out.imports.iter().find(|o| o.module == s.module && o.name == s.name) {
                if o.kind != (ImpKind::Global { ty: *ty, mutable: *mutable }) {
                    mm.push(Mismatch::new("entity_changed", "global(import).type", format!("{:?}", o.kind)));
                }
            }
        }
    }
    // ---------- memories
    for id in model.alive_mems() {
        let m = &model.mems[id as usize];
        let w = if m.added { "memory(added)" } else { "memory" };
        let got: Option<MemT> = match m.imp {
            Some(imp) => {
                let s = &model.imports[imp as usize].spec;
                out.imports.iter().find(|o| o.module == s.module && o.name == s.name).and_then(|o| match o.kind {
                    ImpKind::Memory(t) => Some(t),
                    _ => None,
                })
            }
            None => out.memories.iter().find(|t| t.min == m.ty.min).copied(),
        };
        if let Some(t) = got {
            if t != m.ty {
                mm.push(Mismatch::new("entity_changed", &format!("{w}.type"), format!("{:?} vs requested {:?}", t, m.ty)));
            }
        }
    }
    // ---------- functions
    for id in model.alive_local_funcs() {
        let l = model.local(id).unwrap();
        let pos = maps.funcs.iter().position(|f| *f == Fp::Magic(l.magic));
        let pos = match pos {
            Some(p) if p >= maps.n_imp_funcs as usize => p - maps.n_imp_funcs as usize,
            _ => continue, // reported as entity_missing above
        };
        let of = &out.funcs[pos];
        let w = if l.built { "func(built)" } else { "func" };
        // signature
        match out_types.get(of.ty as usize).map(|t| &t.comp) {
            Some(Comp::Func(p, r)) if *p == l.params && *r == l.results => {}
            other => mm.push(Mismatch::new(
                "entity_changed",
                &format!("{w}.sig"),
                format!("func {:#x}: {:?} vs ({:?})->({:?})", l.magic, other, l.params, l.results),
            )),
        }
        // locals: base locals, then added ones in call order; extra trailing i32 locals are
        // accepted only when the function carries semantic-after probes on branches
        let act = expand(&of.locals);
        let mut exp = l.base_locals.clone();
        exp.extend(l.added_locals.iter().copied());
        let has_sa_branch = l.body.iter().any(|i| !i.sem_after.ins.is_empty() && i.ins.is_branch());
        let ok = if act.len() >= exp.len() && act[..exp.len()] == exp[..] {
            let extra = &act[exp.len()..];
            extra.is_empty() || (has_sa_branch && extra.iter().all(|t| *t == VT::I32))
        } else {
            false
        };
        if !ok {
            mm.push(Mismatch::new(
                "local_decl",
                w,
                format!("func {:#x}: declared {:?}, expected {:?}", l.magic, act, exp),
            ));
        }
        // body
        let rf = |i: &Ins| resolve(i, &|x| ef(x), &|x| eg(x), &|x| em(x));
        let ra = |i: &Ins| resolve(i, &|x| af(x), &|x| ag(x), &|x| am(x));
        let act_body: Vec<RIns> = of.body.iter().map(ra).collect();
        if let Some(exp_body) = expected_body(l) {
            let n = exp_body.len().min(act_body.len());
            let mut reported = false;
            for k in 0..n {
                let e = rf(&exp_body[k].0);
                if e != act_body[k] {
                    let origin = &exp_body[k].1;
                    let mode = origin.split('[').next().unwrap_or("");
                    if e.ins == act_body[k].ins {
                        let (kind, site) = ref_site(&exp_body[k].0);
                        // references inside the body of a function the builder produced are part of "appears
                        // exactly as built" (C12) as well
                        let site = if mode != "orig" {
                            format!("{site}(injected)")
                        } else if l.built {
                            format!("{site}(built)")
                        } else {
                            site
                        };
                        mm.push(Mismatch::new(
                            kind,
                            &site,
                            format!("func {:#x} pos {k} ({origin}): expected {:?} got {:?}", l.magic, e.refs, act_body[k].refs),
                        ));
                    } else {
                        mm.push(Mismatch::new(
                            "body_sequence",
                            &format!("{w}:{mode}"),
                            format!("func {:#x} pos {k} ({origin}): expected {:?} got {:?}", l.magic, exp_body[k].0, of.body[k]),
                        ));
                        reported = true;
                        break;
                    }
                }
            }
            if !reported && exp_body.len() != act_body.len() {
                let origin = exp_body.get(n).map(|x| x.1.clone()).unwrap_or("extra".into());
                let mode = origin.split('[').next().unwrap_or("").to_string();
                mm.push(Mismatch::new(
                    "body_sequence",
                    &format!("{w}:{mode}:len"),
                    format!("func {:#x}: expected {} instructions, got {}", l.magic, exp_body.len(), act_body.len()),
                ));
            }
        }
        // probe presence (special modes and everything else): magic must occur, followed by body
        let removed = removed_mask(l);
        for (f, magic, mode, api, instr) in model.accepted_probes.iter().filter(|p| p.0 == id && p.1 != 0) {
            let _ = f;
            if probe_expected_to_vanish(l, *instr as usize, *mode) {
                // instrumentation of an instruction strictly inside a replaced construct is removed
                // with it (C21); a semantic-after body of a *branch* may legitimately survive as
                // unreachable code at the branch target's end outside the region, so it is not judged
                let inside = removed.get(*instr as usize).copied().unwrap_or(false);
                let branch_sa = *mode == Mode::SemanticAfter && l.body.get(*instr as usize).map_or(false, |b| b.ins.is_branch());
                if inside && !branch_sa && of.body.iter().any(|i| *i == Ins::I32Const(*magic)) {
                    mm.push(Mismatch::new(
                        "removed_region_probe",
                        mode.name(),
                        format!("func {:#x} instr {instr}: probe magic {:#x} of an instruction inside a replaced construct is in the encoded function", l.magic, magic),
                    ));
                }
                // a special-mode probe ON the opener (or `else`) of a replaced construct: whether it is
                // emitted is not stated; if it is, then next to the replacement and nowhere else (a copy
                // anywhere else fires in a construct it was never attached to)
                let on_opener = !inside
                    && matches!(mode, Mode::BlockEntry | Mode::BlockExit | Mode::SemanticAfter)
                    && l.body.get(*instr as usize).map_or(false, |b| b.block_alt.is_some() && b.ins.is_block_style());
                if on_opener {
                    let alt = model.accepted_probes.iter().find(|p| p.0 == id && p.4 == *instr && p.2 == Mode::BlockAlt && p.1 != 0);
                    let span_of = |m: i32| -> Option<Vec<(usize, usize)>> {
                        let pb = model.probe_bodies.get(&m)?;
                        let off = pb.iter().position(|i| *i == Ins::I32Const(m))?;
                        Some(of.body.iter().enumerate().filter(|(_, i)| **i == Ins::I32Const(m)).map(|(k, _)| (k.saturating_sub(off), k.saturating_sub(off) + pb.len())).collect())
                    };
                    if let (Some(alt), Some(mine)) = (alt, span_of(*magic)) {
                        if let Some(theirs) = span_of(alt.1) {
                            for (s, e) in mine {
                                if !theirs.iter().any(|(a, b)| e == *a || s == *b || (s < *b && *a < e)) {
                                    mm.push(Mismatch::new(
                                        "replaced_opener_probe",
                                        mode.name(),
                                        format!(
                                            "func {:#x} instr {instr}: probe magic {:#x} on the opener of a replaced construct is emitted at {s}..{e}, away from the replacement (magic {:#x} at {:?})",
                                            l.magic, magic, alt.1, theirs
                                        ),
                                    ));
                                    break;
                                }
                            }
                        }
                    }
                }
                continue;
            }
            let occ: Vec<usize> = of.body.iter().enumerate().filter(|(_, i)| **i == Ins::I32Const(*magic)).map(|(k, _)| k).collect();
            // every copy of the probe in the output is the body the caller built, and every reference in
            // it designates the entity the caller's ID designated (whatever the lowering did around it)
            if let Some(pb) = model.probe_bodies.get(magic) {
                if let Some(off) = pb.iter().position(|i| *i == Ins::I32Const(*magic)) {
                    'occ: for k in &occ {
                        let start = match k.checked_sub(off) {
                            Some(s) if s + pb.len() <= act_body.len() => s,
                            _ => continue,
                        };
                        for (j, pi) in pb.iter().enumerate() {
                            let e = rf(pi);
                            let a = &act_body[start + j];
                            if e.ins != a.ins {
                                break; // not a verbatim copy: how a mode lowers its body is not judged here
                            }
                            if e.refs != a.refs {
                                let (kind, site) = ref_site(pi);
                                mm.push(Mismatch::new(
                                    kind,
                                    &format!("{site}(injected)"),
                                    format!("func {:#x} probe {:#x} ({}) pos {}: expected {:?} got {:?}", l.magic, magic, mode.name(), start + j, e.refs, a.refs),
                                ));
                                break 'occ;
                            }
                        }
                    }
                }
            }
            if occ.is_empty() {
                mm.push(Mismatch::new(
                    "probe_missing",
                    &format!("{}:{}", api.name(), mode.name()),
                    format!("func {:#x} instr {instr}: probe magic {:#x} not in encoded function", l.magic, magic),
                ));
            }
        }
    }
    // ---------- custom sections
    let act_customs: Vec<(String, Vec<u8>)> = out.customs.iter().map(|c| (c.name.clone(), c.data.clone())).collect();
    if act_customs != model.customs {
        let kind = if act_customs.len() < model.customs.len() {
            "missing"
        } else if act_customs.len() > model.customs.len() {
            "extra"
        } else if act_customs.iter().map(|c| &c.0).collect::<Vec<_>>() != model.customs.iter().map(|c| &c.0).collect::<Vec<_>>() {
            "name_or_order"
        } else {
            "data"
        };
        mm.push(Mismatch::new(
            "custom_section",
            kind,
            format!("expected {:?} got {:?}", model.customs, act_customs),
        ));
    }
    // ---------- types
    let base_groups = &model.base.types;
    for (k, g) in base_groups.iter().enumerate() {
        if out.types.get(k) != Some(g) {
            mm.push(Mismatch::new("type_existing_changed", "group", format!("group {k}: {:?} vs base {:?}", out.types.get(k), g)));
            break;
        }
    }
    for (want, ret) in &model.type_requests {
        if out_types.get(*ret as usize) != Some(want) {
            mm.push(Mismatch::new(
                "type_at_index",
                match want.comp {
                    Comp::Func(..) => "func",
                    Comp::Struct(..) => "struct",
                    Comp::Array(..) => "array",
                },
                format!("index {ret}: {:?} vs requested {:?}", out_types.get(*ret as usize), want),
            ));
        }
    }
    // ---------- names
    for (idx, name) in &out.names.funcs {
        let fp = maps.funcs.get(*idx as usize).cloned();
        // which model function carries this fingerprint?
        let owner = model.alive_funcs().into_iter().find(|f| model.func_fp(*f) == fp);
        match owner {
            Some(f) => {
                let mf = &model.funcs[f as usize];
                if !mf.name_known {
                    // what a replaced / converted function is called is not stated - but it must not carry
                    // a name that belongs to ANOTHER function of the module (names are unique here)
                    if let Some(other) = model.alive_funcs().into_iter().find(|g| *g != f && model.funcs[*g as usize].name_known && model.funcs[*g as usize].name.as_ref() == Some(name)) {
                        mm.push(Mismatch::new(
                            "name_migrated",
                            "func",
                            format!("name {:?} of {:?} is (also) attached to {:?}", name, model.func_fp(other), fp),
                        ));
                    }
                } else if mf.name.as_ref() != Some(name) {
                    mm.push(Mismatch::new(
                        "name_migrated",
                        if model.local(f).map_or(false, |l| l.built) { "func(built)" } else { "func" },
                        format!("name {:?} attached to {:?}, whose name is {:?}", name, fp, mf.name),
                    ));
                }
            }
            None => mm.push(Mismatch::new("name_migrated", "func", format!("name {:?} attached to unknown index {idx}", name))),
        }
    }
    for f in model.alive_funcs() {
        let mf = &model.funcs[f as usize];
        if let (true, Some(n)) = (mf.name_known, &mf.name) {
            let fp = model.func_fp(f);
            let present = out.names.funcs.iter().any(|(i, nn)| nn == n && maps.funcs.get(*i as usize).cloned() == fp);
            if !present && !out.names.funcs.iter().any(|(i, _)| maps.funcs.get(*i as usize).cloned() == fp) {
                let site = if model.local(f).map_or(false, |l| l.built) { "func(built)" } else { "func" };
                mm.push(Mismatch::new("name_lost", site, format!("{:?} of {:?}", n, fp)));
            }
        }
    }
    for (idx, name) in &out.names.globals {
        let fp = maps.globals.get(*idx as usize).cloned();
        let owner = model.alive_globals().into_iter().find(|g| model.global_fp(*g) == fp);
        let ok = owner.map_or(false, |g| model.globals[g as usize].name.as_ref() == Some(name));
        if !ok {
            mm.push(Mismatch::new("name_migrated", "global", format!("name {:?} attached to {:?}", name, fp)));
        }
    }
    for g in model.alive_globals() {
        if let Some(n) = &model.globals[g as usize].name {
            let fp = model.global_fp(g);
            if !out.names.globals.iter().any(|(i, _)| maps.globals.get(*i as usize).cloned() == fp) {
                mm.push(Mismatch::new("name_lost", "global", format!("{:?} of {:?}", n, fp)));
            }
        }
    }
    // local names: base entries belong to base local functions (identified by magic)
    for (fidx, names) in &out.names.locals {
        let fp = maps.funcs.get(*fidx as usize).cloned();
        let owner = (0..model.base.num_funcs()).find(|f| {
            *f >= model.base.num_imp_funcs()
                && func_magic_of(&model.base.funcs[(*f - model.base.num_imp_funcs()) as usize].body).map(Fp::Magic) == fp
        });
        let expected = owner.and_then(|f| model.local_names.iter().find(|(k, _)| *k == f)).map(|(_, v)| v);
        // a function that was converted and/or replaced has a new body under the old ID: what
        // happens to the old body's local names is not stated by the property
        let unstated = model
            .alive_funcs()
            .into_iter()
            .any(|f| model.func_fp(f) == fp && model.funcs[f as usize].rebodied);
        if expected != Some(names) && !unstated {
            mm.push(Mismatch::new("name_migrated", "local", format!("local names {:?} attached to {:?}", names, fp)));
        }
    }
    for (f, names) in &model.local_names {
        // expected only while that base function is still a local function with its body
        if let Some(l) = model.local(*f) {
            if !l.built {
                let fp = Some(Fp::Magic(l.magic));
                if !out.names.locals.iter().any(|(i, _)| maps.funcs.get(*i as usize).cloned() == fp) {
                    mm.push(Mismatch::new("name_lost", "local", format!("{:?} of {:?}", names, fp)));
                }
            }
        }
    }
    Ok(mm)
}

/// A probe whose site lies inside a region removed by an accepted block-alternate or alternate
/// (or on an instruction that is itself replaced) is expected to vanish and is not judged.
fn probe_expected_to_vanish(l: &MLocal, instr: usize, mode: Mode) -> bool {
    if matches!(mode, Mode::FuncEntry | Mode::FuncExit) {
        return false;
    }
    let n = l.body.len();
    // at the final end only before-code is emitted
    if instr + 1 == n && !matches!(mode, Mode::Before) {
        return true;
    }
    // inside (or on the opener/closer of) a block-alt region
    let mut i = 0;
    while i < n {
        if l.body[i].block_alt.is_some() {
            let is_else = matches!(l.body[i].ins, Ins::Else);
            if !l.body[i].ins.is_block_style() {
                i += 1;
                continue;
            }
            let mut depth = 0i32;
            let mut j = i;
            loop {
                match l.body[j].ins {
                    Ins::Block(_) | Ins::Loop(_) | Ins::If(_) | Ins::TryTable(..) => depth += 1,
                    Ins::End => {
                        if is_else && depth == 0 {
                            break;
                        }
                        depth -= 1;
                        if !is_else && depth == 0 {
                            break;
                        }
                    }
                    _ => {}
                }
                j += 1;
                if j >= n {
                    break;
                }
            }
            if instr >= i && instr <= j {
                // the block-alt probe itself (on the opener) is the replacement and must be present
                if !(instr == i && matches!(mode, Mode::BlockAlt)) {
                    return true;
                }
            }
            i = j + 1;
            continue;
        }
        i += 1;
    }
    false
}

/// Panics observed while applying ops / encoding, judged against the model: a panic in a clean
/// history (no dangling refs, all preconditions hold) is unexpected.
pub fn judge_panics(sc: &Scenario, res: &RunResult) -> Vec<Mismatch> {
    let mut mm = vec![];
    let _ = sc;
    for (_, kind, o) in &res.outcomes {
        match o {
            OpOutcome::Panicked(p) => mm.push(Mismatch::new("unexpected_panic", &format!("op:{kind}:{}", p.sig()), format!("{:?}", p))),
            OpOutcome::ReturnMismatch { expected, got } => {
                mm.push(Mismatch::new("returned_id", kind, format!("expected {expected} got {got}")))
            }
            _ => {}
        }
    }
    for (k, f) in &res.invariant_failures {
        mm.push(Mismatch::new("getter_invariant", f.split('(').next().unwrap_or("?").split(' ').next().unwrap_or("?"), format!("after op {k}: {f}")));
    }
    let (df, dg, dm) = res.model.dangling();
    let clean = df.is_empty() && dg.is_empty() && dm.is_empty();
    for t in &res.tails {
        if let TailOutcome::Panicked(p) = t {
            if clean {
                mm.push(Mismatch::new("unexpected_panic", &format!("encode:{}", p.sig()), format!("{:?}", p)));
            }
        }
    }
    mm
}

pub fn first_bytes(res: &RunResult) -> Option<&Vec<u8>> {
    res.tails.iter().find_map(|t| match t {
        TailOutcome::Bytes(b) => Some(b),
        _ => None,
    })
}

pub fn panic_of(res: &RunResult) -> Option<&PanicInfo> {
    res.tails.iter().find_map(|t| match t {
        TailOutcome::Panicked(p) => Some(p),
        _ => None,
    })
}
