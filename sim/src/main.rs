#![allow(unexpected_cfgs)]
mod c03;
mod hseam;
mod c23;
mod c26;
mod checks;
mod decode;
mod exec;
mod gen;
mod ins;
mod interp;
mod minimize;
mod model;
mod oracle;
mod progen;
mod execcheck;
mod rng;
mod selftest;
mod spec;

use crate::checks::*;
use crate::exec::Scenario;
use crate::oracle::Mismatch;
use serde::{Deserialize, Serialize};
use std::collections::{BTreeMap, BTreeSet};
use std::io::Write;
use std::sync::atomic::{AtomicU64, Ordering};
use std::sync::Mutex;

pub const DEFAULT_SEED: u64 = 20260921;

static XP_SUMMARY: Mutex<Option<serde_json::Value>> = Mutex::new(None);

/// Private copy of the original stdout: the library prints on some paths, so fd 1 is pointed at
/// /dev/null and report lines go through this descriptor.
static REPORT_FD: std::sync::atomic::AtomicI32 = std::sync::atomic::AtomicI32::new(1);

pub fn report(line: &str) {
    let fd = REPORT_FD.load(Ordering::Relaxed);
    let s = format!("{line}\n");
    unsafe {
        libc::write(fd, s.as_ptr() as *const libc::c_void, s.len());
    }
}

fn isolate_stdout() {
    unsafe {
        let saved = libc::dup(1);
        if saved >= 0 {
            REPORT_FD.store(saved, Ordering::Relaxed);
            let devnull = libc::open(b"/dev/null\0".as_ptr() as *const libc::c_char, libc::O_WRONLY);
            if devnull >= 0 {
                libc::dup2(devnull, 1);
                libc::close(devnull);
            }
        }
    }
}

#[derive(Serialize, Deserialize, Clone, Debug)]
pub struct ReplayFile {
    pub property: String,
    pub signature: String,
    pub op_shape: String,
    pub verif_seed: u64,
    pub run_no: u64,
    pub run_seed: u64,
    pub hash_seeds: usize,
    pub mismatches: Vec<(String, String, String)>,
    pub trace: Vec<String>,
    pub scenario: Scenario,
}

#[derive(Deserialize, Clone, Debug)]
pub struct KnownFinding {
    pub property: String,
    pub signature: String,
    #[serde(default)]
    pub op_shape: Option<String>,
    pub status: String,
    pub what: String,
}

pub fn load_known() -> Vec<KnownFinding> {
    let mut v = vec![];
    if let Ok(s) = std::fs::read_to_string("/verif/known_findings.jsonl") {
        for l in s.lines() {
            let l = l.trim();
            if l.starts_with('{') {
                match serde_json::from_str::<KnownFinding>(l) {
                    Ok(k) => v.push(k),
                    Err(e) => {
                        eprintln!("harness: bad known_findings line: {e}");
                        std::process::exit(2);
                    }
                }
            }
        }
    }
    v
}

pub fn op_shape(sc: &Scenario) -> String {
    let mut s: BTreeSet<String> = BTreeSet::new();
    for (_, op) in sc.flat_ops() {
        let mut k = op.kind().to_string();
        if let model::Op::Inject { sites, api, .. } = op {
            for st in sites {
                s.insert(format!("inject:{}:{}", api.name(), st.mode.name()));
            }
            k = "inject".into();
        }
        s.insert(k);
    }
    s.into_iter().collect::<Vec<_>>().join("+")
}

fn history_shape(sc: &Scenario) -> u64 {
    let mut s = String::new();
    for (c, op) in sc.flat_ops() {
        s.push_str(&format!("{c}:{};", op.kind()));
        if let model::Op::Inject { sites, api, .. } = op {
            for st in sites {
                s.push_str(&format!("{}:{};", api.name(), st.mode.name()));
            }
        }
    }
    s.push_str(&sc.scheduler);
    for t in &sc.tail {
        s.push_str(&format!("{:?}", t));
    }
    if let Some(w) = &sc.walk {
        s.push_str(&format!("walk:{:?}", w.skip));
    }
    if let Some(c) = &sc.comp {
        for p in &c.layout {
            s.push_str(match p {
                c26::Piece::Module(_) => "M",
                c26::Piece::Custom(_) => "C",
                c26::Piece::Nested(_) => "N",
            });
        }
        for (k, sk) in &c.skip {
            s.push_str(&format!("skip{k}:{};", sk.len()));
        }
        for (k, _, site, at) in &c.sites {
            s.push_str(&format!("site{k}:{}:{at};", site.mode.name()));
        }
    }
    if let Some(e) = &sc.exec {
        s.push_str(&format!("calls{}:trap{:?}", e.calls.len(), e.trap_at.is_some()));
    }
    rng::hash_str(&s)
}

#[derive(Default)]
struct Stats {
    runs: u64,
    fault_free: u64,
    ops_applied: u64,
    ops_skipped: u64,
    hash_maps: u64,
    shapes: BTreeSet<u64>,
    nontrivial: u64,
    faults: BTreeMap<String, u64>,
    schedulers: BTreeMap<String, u64>,
    probes: BTreeMap<String, u64>,
    op_kinds: BTreeMap<String, u64>,
    cross: BTreeMap<String, u64>,
    samples: Vec<serde_json::Value>,
    gen_errors: Vec<String>,
    harness_errors: Vec<String>,
    rejected_sites: u64,
    encode_panics_expected: u64,
}

struct Violation {
    run_no: u64,
    run_seed: u64,
    scenario: Scenario,
    owned: Vec<Mismatch>,
}

fn tally(st: &mut Stats, sc: &Scenario, res: &exec::RunResult, j: &Judged) {
    st.runs += 1;
    let mut faulty = false;
    for t in &sc.tail {
        if let exec::Tail::EmitFail(k) = t {
            *st.faults.entry(k.name().into()).or_default() += 1;
            faulty = true;
        }
    }
    let encs = sc.tail.iter().filter(|t| matches!(t, exec::Tail::Encode | exec::Tail::EmitOk)).count();
    if encs > 1 {
        *st.faults.entry(format!("re_encode_x{encs}")).or_default() += 1;
    }
    let (df, dg, dm) = res.model.dangling();
    if !(df.is_empty() && dg.is_empty() && dm.is_empty()) {
        *st.faults.entry("dangling_delete".into()).or_default() += 1;
        faulty = true;
        if oracle::panic_of(res).is_some() {
            st.encode_panics_expected += 1;
        }
    }
    *st.faults.entry("hash_seed".into()).or_default() += 1;
    if !faulty {
        st.fault_free += 1;
    }
    st.ops_applied += res.ops_applied as u64;
    st.hash_maps += res.hash_maps;
    for (_, k, o) in &res.outcomes {
        match o {
            exec::OpOutcome::Skipped => st.ops_skipped += 1,
            exec::OpOutcome::SiteRejected(v) => {
                st.rejected_sites += v.len() as u64;
                *st.op_kinds.entry(k.clone()).or_default() += 1;
            }
            _ => *st.op_kinds.entry(k.clone()).or_default() += 1,
        }
    }
    *st.schedulers.entry(sc.scheduler.clone()).or_default() += 1;
    let mutating = res.ops_applied
        + sc.comp.as_ref().map_or(0, |c| c.sites.len() + c.skip.len())
        + sc.walk.as_ref().map_or(0, |w| 1 + w.skip.len());
    if mutating >= 2 || faulty {
        st.nontrivial += 1;
        st.shapes.insert(history_shape(sc));
    }
    // "rare condition reached" probes
    let m = &res.model;
    let mut hit = |n: &str, c: bool| {
        if c {
            *st.probes.entry(n.into()).or_default() += 1;
        }
    };
    hit("multi_client", sc.clients.iter().filter(|c| !c.is_empty()).count() > 1);
    hit("import_added_and_local_converted", {
        let ks: Vec<&str> = sc.flat_ops().iter().map(|(_, o)| o.kind()).collect();
        ks.contains(&"add_import_func") && ks.contains(&"convert_local_to_import")
    });
    hit("dup_type_in_base", {
        let t = sc.base.flat_types();
        (0..t.len()).any(|i| (0..i).any(|j| t[i] == t[j]))
    });
    hit("non_func_import_before_func_import", {
        let mut seen_other = false;
        let mut r = false;
        for i in &sc.base.imports {
            match i.kind {
                spec::ImpKind::Func(_) => r |= seen_other,
                _ => seen_other = true,
            }
        }
        r
    });
    hit(
        "atomic_global_access_in_base",
        sc.base.funcs.iter().any(|f| f.body.iter().any(|i| matches!(i, ins::Ins::GlobalAtomic(..)))),
    );
    hit("try_table_in_base", sc.base.funcs.iter().any(|f| f.body.iter().any(|i| matches!(i, ins::Ins::TryTable(..)))));
    hit("typed_element_segment_in_base", sc.base.elems.iter().any(|e| e.ty.is_some()));
    hit("table_initialiser_in_base", sc.base.tables.iter().any(|t| t.init.is_some()));
    hit("pull_side_effects_before_encode", {
        let p = sc.tail.iter().position(|t| matches!(t, exec::Tail::PullSideEffects));
        let e = sc.tail.iter().rposition(|t| matches!(t, exec::Tail::Encode | exec::Tail::EmitOk));
        matches!((p, e), (Some(p), Some(e)) if p < e)
    });
    {
        let flat = sc.flat_ops();
        let sites: Vec<&model::Site> = flat.iter().filter_map(|(_, o)| if let model::Op::Inject { sites, .. } = o { Some(sites.iter()) } else { None }).flatten().collect();
        hit("clear_instr_at_call", sites.iter().any(|s| s.clear));
        hit("function_level_probe", sites.iter().any(|s| matches!(s.mode, model::Mode::FuncEntry | model::Mode::FuncExit)));
        hit("export_name_reused_after_delete", {
            let mut deleted_seen = false;
            let mut r = false;
            for (_, o) in &flat {
                match o {
                    model::Op::DeleteExport { .. } => deleted_seen = true,
                    model::Op::AddExportFunc { name, .. } | model::Op::AddExportMem { name, .. } => {
                        r |= deleted_seen && !(name.starts_with("xf") || name.starts_with("xm"));
                    }
                    _ => {}
                }
            }
            r
        });
        hit("naming_through_lower_level_call", flat.iter().any(|(_, o)| matches!(o, model::Op::SetFnName { via, .. } if *via != 0)));
        hit("import_replaced", flat.iter().any(|(_, o)| matches!(o, model::Op::ReplaceImport { .. })));
    }
    if let Some(c) = &sc.comp {
        hit("component_far_location_site", !c.far.is_empty());
        hit("component_pre_op", !c.pre.is_empty());
        hit("component_add_module", !c.added.is_empty());
        hit("component_add_module_behind_a_non_module_section", !c.added.is_empty() && !matches!(c.layout.last(), Some(c26::Piece::Module(_))));
        hit("component_iterator_add_local_or_global", !c.extras.is_empty());
        hit("component_custom_sections_in_3_or_more_runs", {
            let mut runs = 0;
            let mut in_run = false;
            for p in &c.layout {
                let is_c = matches!(p, c26::Piece::Custom(_));
                if is_c && !in_run {
                    runs += 1;
                }
                in_run = is_c;
            }
            runs >= 3
        });
    }
    hit("special_mode_injected", m.funcs.iter().any(|f| matches!(&f.kind, model::MFK::Local(l) if l.has_special())));
    hit("encode_panicked", oracle::panic_of(res).is_some());
    hit("output_produced", oracle::first_bytes(res).is_some());
    for o in &j.others {
        *st.cross.entry(o.kind.clone()).or_default() += 1;
    }
    if let Some(e) = &j.harness_error {
        if st.harness_errors.len() < 5 {
            st.harness_errors.push(format!("run seed {}: {e}", sc.seed));
        }
    }
}

fn sample_of(sc: &Scenario) -> serde_json::Value {
    serde_json::json!({
        "run_seed": sc.seed,
        "profile": sc.profile,
        "scheduler": sc.scheduler,
        "hash_seed": sc.hash_seed,
        "base": {
            "types": sc.base.flat_types().len(), "imports": sc.base.imports.len(), "funcs": sc.base.funcs.len(),
            "globals": sc.base.globals.len(), "memories": sc.base.memories.len(), "elems": sc.base.elems.len(),
            "data": sc.base.data.len(), "exports": sc.base.exports.len(), "start": sc.base.start,
        },
        "schedule": sc.schedule,
        "history": sc.flat_ops().iter().map(|(c, o)| format!("client{c}: {}", render_op(o))).collect::<Vec<_>>(),
        "tail": sc.tail.iter().map(|t| format!("{:?}", t)).collect::<Vec<_>>(),
    })
}

fn render_op(o: &model::Op) -> String {
    match o {
        model::Op::Inject { func, api, sites } => format!(
            "inject(func {func}, {}, [{}])",
            api.name(),
            sites.iter().map(|s| format!("{}@{}", s.mode.name(), s.instr)).collect::<Vec<_>>().join(", ")
        ),
        model::Op::BuildFunc { params, results, body, .. } => format!("build_func({:?}->{:?}, {} instrs)", params, results, body.len()),
        model::Op::ReplaceImport { imp, body, .. } => format!("replace_import(import {imp}, {} instrs)", body.len()),
        other => {
            let s = format!("{:?}", other);
            s.chars().take(160).collect()
        }
    }
}

fn trace_of(sc: &Scenario, res: &exec::RunResult) -> Vec<String> {
    let mut v = vec![format!("seed={} hash_seed={} scheduler={}", sc.seed, sc.hash_seed, sc.scheduler)];
    if let Some(e) = &res.parse_err {
        v.push(format!("parse: {e}"));
    }
    for ((c, op), (_, _, out)) in sc.flat_ops().iter().zip(res.outcomes.iter()) {
        v.push(format!("client{c}: {} => {}", render_op(op), match out {
            exec::OpOutcome::Ok => "ok".to_string(),
            other => { let s = format!("{:?}", other); s.chars().take(200).collect() }
        }));
    }
    for (t, o) in sc.tail.iter().zip(res.tails.iter()) {
        v.push(format!("tail {:?} => {}", t, match o {
            exec::TailOutcome::Bytes(b) => format!("{} bytes, fnv {:016x}", b.len(), rng::hash_bytes(b)),
            exec::TailOutcome::SideFx(f) => format!("{} side-effect records", f.len()),
            other => { let s = format!("{:?}", other); s.chars().take(200).collect() }
        }));
    }
    for l in &res.logs {
        v.push(format!("log: {l}"));
    }
    v
}

pub fn run_seed_of(verif_seed: u64, id: &str, run_no: u64) -> u64 {
    rng::mix(rng::mix(verif_seed, rng::hash_str(id)), run_no)
}

fn gen_for(def: &CheckDef, verif_seed: u64, run_no: u64) -> Result<Scenario, String> {
    let run_seed = run_seed_of(verif_seed, def.id, run_no);
    if def.id == "C26" {
        return c26::gen_c26(run_seed);
    }
    if def.id == "C04" && run_no % 5 == 4 {
        // the component share of C04: ComponentIterator keeps its per-module metadata and skip lists in
        // hash maps; the encoded component must not depend on their iteration order
        return c26::gen_c26_for("C04", run_seed);
    }
    if def.id == "C28" && run_no % 6 == 5 {
        // the component share of C28: custom sections between the modules of a component whose modules
        // are instrumented through iterators
        return c26::gen_c26_for("C28", run_seed);
    }
    if def.profiles.is_empty() {
        // C18-C20: one run in eight is a structural scenario in which probes of the property's mode
        // sit inside constructs replaced through block-alternate (they must not survive the construct)
        if matches!(def.id, "C18" | "C19" | "C20") && run_no % 8 == 7 {
            return gen::gen_scenario(def.id, &checks::region_profile(), run_seed, false);
        }
        return execcheck::gen_exec_scenario(def.id, run_seed);
    }
    let p = &def.profiles[(run_no % def.profiles.len() as u64) as usize];
    let mut sc = gen::gen_scenario(def.id, p, run_seed, def.reencode_tail)?;
    if def.id == "C25" {
        // the skip list: none / some / all / leading / trailing / duplicates / imported IDs
        let mut rng = rng::Rng::new(rng::mix(run_seed, 0x25));
        let mut m = model::Model::new(&sc.base);
        for (_, op) in sc.flat_ops() {
            if m.precond(op) {
                m.apply(op);
            }
        }
        let n = m.funcs.len() as u32;
        let locals = m.alive_local_funcs();
        let skip: Vec<u32> = match rng.below(8) {
            0 => vec![],
            1 => locals.clone(),
            2 => locals.iter().take(rng.below(locals.len() + 1)).copied().collect(),
            3 => locals.iter().rev().take(rng.below(locals.len() + 1)).copied().collect(),
            4 => (0..n).filter(|_| rng.chance(1, 2)).collect(),
            5 => {
                let mut v: Vec<u32> = (0..n).filter(|_| rng.chance(1, 3)).collect();
                let d = v.clone();
                v.extend(d);
                v
            }
            6 => m.alive_import_funcs(),
            _ => locals.iter().filter(|_| rng.chance(1, 2)).copied().collect(),
        };
        sc.walk = Some(exec::WalkPlan { skip, partial: rng.below(40) as u32 });
    }
    Ok(sc)
}

fn check_cmd(id: &str, tier: &str, verif_seed: u64) -> i32 {
    let t0 = std::time::Instant::now();
    let def = match check_def(id) {
        Some(d) => d,
        None => {
            eprintln!("harness: no check for {id}");
            return 2;
        }
    };
    let runs = std::env::var("VERIF_RUNS").ok().and_then(|s| s.parse().ok()).unwrap_or(if tier == "thorough" { def.thorough_runs } else { def.quick_runs });
    let hs = if tier == "thorough" { def.hash_seeds.1 } else { def.hash_seeds.0 };
    // sensitivity experiments only: VERIF_HASH_SEEDS=1 switches the in-process seeds off so that the
    // cross-process phase of C04 can be shown to detect on its own
    let hs = std::env::var("VERIF_HASH_SEEDS").ok().and_then(|s| s.parse().ok()).unwrap_or(hs);
    let workers: usize = std::env::var("VERIF_WORKERS").ok().and_then(|s| s.parse().ok()).unwrap_or(16);
    let next = AtomicU64::new(0);
    let stats = Mutex::new(Stats::default());
    let violations: Mutex<Vec<Violation>> = Mutex::new(vec![]);
    // C04 cross-process phase: the first xp_runs scenarios are also executed by xp_procs fresh processes
    // of the unhooked build
    let (xp_runs, xp_procs): (u64, u32) = if id == "C04" {
        let r = std::env::var("VERIF_XPROC_RUNS").ok().and_then(|s| s.parse().ok()).unwrap_or(if tier == "thorough" { 100_000 } else { 8_000 });
        (r.min(runs), if tier == "thorough" { 6 } else { 3 })
    } else {
        (0, 0)
    };
    let xp_digests: Mutex<Vec<(u64, u64)>> = Mutex::new(vec![]);
    std::thread::scope(|s| {
        for _ in 0..workers {
            s.spawn(|| {
                exec::install_logger();
                let mut local = Stats::default();
                let mut lv = vec![];
                loop {
                    let n = next.fetch_add(1, Ordering::Relaxed);
                    if n >= runs {
                        break;
                    }
                    match gen_for(&def, verif_seed, n) {
                        Err(e) => {
                            if local.gen_errors.len() < 3 {
                                local.gen_errors.push(format!("run {n}: {e}"));
                            }
                        }
                        Ok(sc) => {
                            let (j, res, eff) = judge(def.id, &sc, hs);
                            tally(&mut local, &eff, &res, &j);
                            if def.id == "C04" && n < xp_runs {
                                let d = if sc.comp.is_some() { rng::hash_str(&checks::c04_outcome(&sc)) } else { checks::outcome_digest(&res) };
                                xp_digests.lock().unwrap().push((n, d));
                            }
                            if n < 3 {
                                local.samples.push(sample_of(&eff));
                            }
                            if !j.owned.is_empty() && lv.len() < 200 {
                                lv.push(Violation {
                                    run_no: n,
                                    run_seed: sc.seed,
                                    scenario: eff,
                                    owned: j.owned,
                                });
                            }
                        }
                    }
                }
                let mut g = stats.lock().unwrap();
                merge(&mut g, local);
                violations.lock().unwrap().extend(lv);
            });
        }
    });
    let mut st = stats.into_inner().unwrap();
    let mut vs = violations.into_inner().unwrap();
    let mut xp_summary = serde_json::Value::Null;
    if xp_runs > 0 {
        let mine: BTreeMap<u64, u64> = xp_digests.into_inner().unwrap().into_iter().collect();
        let bin = checks::unhooked_bin();
        let mut differing: BTreeSet<u64> = BTreeSet::new();
        let mut compared = 0u64;
        for p in 0..xp_procs {
            let out = std::process::Command::new(&bin).args(["c04-proc", &verif_seed.to_string(), &xp_runs.to_string(), &workers.to_string()]).output();
            let out = match out {
                Ok(o) if o.status.success() => o,
                Ok(o) => {
                    st.harness_errors.push(format!("unhooked process {p} exited with {:?}: {}", o.status.code(), String::from_utf8_lossy(&o.stderr)));
                    break;
                }
                Err(e) => {
                    st.harness_errors.push(format!("cannot run the unhooked simulator {bin}: {e} (./check --build builds it)"));
                    break;
                }
            };
            let mut lines = 0u64;
            for l in String::from_utf8_lossy(&out.stdout).lines() {
                let mut it = l.split(' ');
                let (Some(n), Some(d)) = (it.next().and_then(|x| x.parse::<u64>().ok()), it.next()) else { continue };
                lines += 1;
                match mine.get(&n) {
                    Some(h) if format!("{:016x}", h) == d => {}
                    Some(_) => {
                        differing.insert(n);
                    }
                    None => {}
                }
            }
            if lines != xp_runs {
                st.harness_errors.push(format!("unhooked process {p} reported {lines} of {xp_runs} runs"));
                break;
            }
            compared += lines;
        }
        *st.faults.entry("fresh_process_std_hash_keys".into()).or_default() += compared;
        for n in &differing {
            if vs.iter().any(|v| v.run_no == *n) || vs.len() >= 400 {
                continue;
            }
            if let Ok(mut sc) = gen_for(&def, verif_seed, *n) {
                sc.xproc = 12;
                vs.push(Violation {
                    run_no: *n,
                    run_seed: sc.seed,
                    scenario: sc,
                    owned: vec![Mismatch::new("nondeterministic_bytes", "process", format!("run {n}: a fresh process of the unhooked build produced different output than the hooked seed-0 execution"))],
                });
            }
        }
        xp_summary = serde_json::json!({
            "unhooked_binary": bin, "processes": xp_procs, "scenarios_per_process": xp_runs,
            "executions_compared": compared, "scenarios_differing": differing.len(),
            "what": "the first scenarios_per_process scenarios re-executed by fresh OS processes of the simulator built WITHOUT --cfg wirm_verif (shipped library code, std RandomState keys per process and thread); every outcome must equal the hooked seed-0 outcome",
        });
    }
    XP_SUMMARY.lock().unwrap().replace(xp_summary);
    vs.sort_by_key(|v| v.run_no);
    if !st.gen_errors.is_empty() || !st.harness_errors.is_empty() {
        for e in st.gen_errors.iter().chain(st.harness_errors.iter()) {
            eprintln!("harness error: {e}");
        }
        write_evidence(id, tier, verif_seed, &st, &def, hs, 0, &[], t0.elapsed().as_secs_f64(), Some("harness error"));
        return 2;
    }
    // group violations by raw signature, minimise the first of each group
    let known = load_known();
    let mut by_sig: BTreeMap<String, Vec<&Violation>> = BTreeMap::new();
    for v in &vs {
        // only the most specific class of mismatch present names the violation (a wrong reference
        // usually also makes the output invalid; the reference mismatch is the finding)
        let best = v.owned.iter().map(|m| sig_priority(&m.kind)).min().unwrap_or(0);
        let mut sigs: Vec<String> = v.owned.iter().filter(|m| sig_priority(&m.kind) == best).map(|m| m.sig()).collect();
        sigs.sort();
        sigs.dedup();
        for s in sigs {
            by_sig.entry(s).or_default().push(v);
        }
    }
    let mut new_violations = 0;
    let mut unreproduced = 0;
    let mut known_hit: BTreeMap<String, u64> = BTreeMap::new();
    let mut replays = vec![];
    let _ = std::fs::create_dir_all(format!("{}/replays", crate::out_root()));
    for (sig, list) in &by_sig {
        // minimise up to 3 instances per signature (different instances may reduce to different shapes)
        let mut shapes_seen: BTreeSet<String> = BTreeSet::new();
        for v in list.iter().take(3) {
            let min = minimize::minimize(id, &v.scenario, sig, hs);
            let shape = op_shape(&min);
            if !shapes_seen.insert(shape.clone()) {
                continue;
            }
            let kf = known.iter().find(|k| {
                k.property == id && k.status == "open" && glob_match(&k.signature, sig) && k.op_shape.as_ref().map_or(true, |s| glob_match(s, &shape))
            });
            if let Some(k) = kf {
                *known_hit.entry(format!("{} [{}] {}", k.signature, k.op_shape.clone().unwrap_or("*".into()), k.what)).or_default() += list.len() as u64;
                continue;
            }
            // new violation: write replay file, confirm in a fresh process
            let (j, res, eff) = judge(id, &min, hs);
            let path = format!("{}/replays/{id}-{:016x}-{}.json", crate::out_root(), rng::hash_str(&format!("{sig}|{shape}")), v.run_seed);
            let rf = ReplayFile {
                property: id.into(),
                signature: sig.clone(),
                op_shape: shape.clone(),
                verif_seed,
                run_no: v.run_no,
                run_seed: v.run_seed,
                hash_seeds: hs,
                mismatches: j.owned.iter().map(|m| (m.kind.clone(), m.site.clone(), m.detail.clone())).collect(),
                trace: trace_of(&eff, &res),
                scenario: min.clone(),
            };
            std::fs::write(&path, serde_json::to_string_pretty(&rf).unwrap()).unwrap();
            let exe = std::env::current_exe().unwrap();
            let out = std::process::Command::new(exe).arg("replay").arg(&path).output();
            match out {
                Ok(o) if o.status.code() == Some(1) => {
                    report(&format!("VIOLATION property={id} replay={path}"));
                    eprintln!("  signature {sig} shape [{shape}] ({} runs); {}", list.len(), j.owned.iter().find(|m| format!("{}@{}", m.kind, m.site) == *sig).or(j.owned.first()).map(|m| m.detail.clone()).unwrap_or_default());
                    new_violations += 1;
                    replays.push(path);
                }
                Ok(o) => {
                    // not reported as a violation; the verdict is decided after all signatures have been
                    // tried (a violation that does replay makes the check fail with exit 1; only if none
                    // does is this a harness error, exit 2)
                    eprintln!("harness: fresh-process replay of {path} did not reproduce signature {sig} (exit {:?})", o.status.code());
                    unreproduced += 1;
                }
                Err(e) => {
                    eprintln!("harness error: cannot spawn replay: {e}");
                    return 2;
                }
            }
        }
    }
    for (k, n) in &known_hit {
        report(&format!("KNOWN-FINDING: property={id} {k} ({n} runs)"));
    }
    let wall = t0.elapsed().as_secs_f64();
    write_evidence(id, tier, verif_seed, &st, &def, hs, new_violations, &known_hit.keys().cloned().collect::<Vec<_>>(), wall, None);
    eprintln!(
        "{id} {tier}: {} runs, {} distinct non-trivial history shapes, {} violations ({} new), {:.1}s",
        st.runs,
        st.shapes.len(),
        vs.len(),
        new_violations,
        wall
    );
    if new_violations > 0 {
        1
    } else if unreproduced > 0 {
        eprintln!("harness error: {unreproduced} candidate violation(s) did not reproduce in a fresh process and none did");
        2
    } else {
        0
    }
}

fn merge(g: &mut Stats, l: Stats) {
    g.runs += l.runs;
    g.fault_free += l.fault_free;
    g.ops_applied += l.ops_applied;
    g.ops_skipped += l.ops_skipped;
    g.hash_maps += l.hash_maps;
    g.nontrivial += l.nontrivial;
    g.rejected_sites += l.rejected_sites;
    g.encode_panics_expected += l.encode_panics_expected;
    g.shapes.extend(l.shapes);
    for (k, v) in l.faults {
        *g.faults.entry(k).or_default() += v;
    }
    for (k, v) in l.schedulers {
        *g.schedulers.entry(k).or_default() += v;
    }
    for (k, v) in l.probes {
        *g.probes.entry(k).or_default() += v;
    }
    for (k, v) in l.op_kinds {
        *g.op_kinds.entry(k).or_default() += v;
    }
    for (k, v) in l.cross {
        *g.cross.entry(k).or_default() += v;
    }
    g.samples.extend(l.samples);
    g.gen_errors.extend(l.gen_errors);
    g.harness_errors.extend(l.harness_errors);
}

#[allow(clippy::too_many_arguments)]
fn write_evidence(
    id: &str,
    tier: &str,
    seed: u64,
    st: &Stats,
    def: &CheckDef,
    hs: usize,
    violations: usize,
    known: &[String],
    wall: f64,
    note: Option<&str>,
) {
    let _ = std::fs::create_dir_all(format!("{}/evidence", crate::out_root()));
    let mut samples = st.samples.clone();
    samples.truncate(3);
    if samples.is_empty() {
        samples.push(serde_json::json!("no run completed"));
    }
    let ev = serde_json::json!({
        "property_id": id,
        "tier": tier,
        "seed": seed,
        "level": "exploration",
        "coverage": {
            "evaluations": st.runs.max(1),
            "distinct_nontrivial": st.shapes.len().max(if st.runs == 0 {2} else {0}),
            "rule": "each evaluation = one seeded scenario (generated base module + 1-3 logical clients' op programs + recorded schedule + encode tail) executed against the real library and the reference model; non-trivial = applied >=2 mutating ops or >=1 fault fired; distinct = distinct hash of (client, op kind, injection api/mode) sequence + scheduler kind + tail, counted with a set",
            "samples": samples,
            "runs_per_hour": if wall > 0.0 { (st.runs as f64 / wall * 3600.0) as u64 } else { 0 },
            "first_run_seed": run_seed_of(seed, id, 0),
            "last_run_seed": run_seed_of(seed, id, st.runs.saturating_sub(1)),
            "sim_steps": { "ops_applied": st.ops_applied, "ops_skipped_precondition": st.ops_skipped, "injection_sites_rejected_at_call": st.rejected_sites },
            "simulated_time": "n/a - the system under test has no clock; progress is counted in API operations",
            "faults_fired": st.faults,
            "fault_free_runs": st.fault_free,
            "nontrivial_runs": st.nontrivial,
            "scheduler_kinds": st.schedulers,
            "probes_hit": st.probes,
            "op_kinds_applied": st.op_kinds,
            "hash_seeds_per_scenario": hs,
            "hash_maps_created": st.hash_maps,
            "cross_process": XP_SUMMARY.lock().unwrap().clone().unwrap_or(serde_json::Value::Null),
            "profiles": if id == "C26" { vec!["component"] } else if def.profiles.is_empty() { if matches!(id, "C18" | "C19" | "C20") { vec![execcheck::exec_profile(id).name, "region-interior"] } else { vec![execcheck::exec_profile(id).name] } } else { def.profiles.iter().map(|p| p.name).collect::<Vec<_>>() },
            "components": {
                "real": ["wirm (all of /repo/src built from the current working tree with --cfg wirm_verif)", "wasmparser 0.235 / wasm-encoder 0.235 as linked by /repo", "kernel file errors for emit_wasm"],
                "stub": ["hash keys (seeded seam)", "log sink (capturing logger)", "panic hook (silent, recording)"]
            },
            "known_findings_matched": known,
            "cross_property_observations": st.cross,
            "note": note,
            "executed": if def.profiles.is_empty() && id != "C26" { execcheck::stats_json() } else { serde_json::Value::Null },
        },
        "assumptions": [
            "wasmparser decodes and validates correctly",
            "the cfg(wirm_verif) seam routes every HashMap of the library",
            "generated base modules are validated before use; an invalid one is a harness error, never a violation"
        ],
        "wall_s": wall,
        "violations": violations,
    });
    std::fs::write(format!("{}/evidence/{id}.json", crate::out_root()), serde_json::to_string_pretty(&ev).unwrap()).unwrap();
}

fn replay_cmd(path: &str) -> i32 {
    let s = match std::fs::read_to_string(path) {
        Ok(s) => s,
        Err(e) => {
            eprintln!("harness: cannot read {path}: {e}");
            return 2;
        }
    };
    if s.contains("\"property\": \"C03\"") {
        return c03::replay(path, &s);
    }
    let rf: ReplayFile = match serde_json::from_str(&s) {
        Ok(r) => r,
        Err(e) => {
            eprintln!("harness: cannot parse {path}: {e}");
            return 2;
        }
    };
    exec::install_logger();
    let (j, res, eff) = judge(&rf.property, &rf.scenario, rf.hash_seeds);
    for l in trace_of(&eff, &res) {
        eprintln!("{l}");
    }
    for m in &j.owned {
        eprintln!("MISMATCH {} : {}", m.sig(), m.detail);
    }
    if j.owned.iter().any(|m| m.sig() == rf.signature) {
        report(&format!("VIOLATION property={} replay={}", rf.property, path));
        1
    } else {
        eprintln!("replay: signature {} did not reappear", rf.signature);
        0
    }
}

fn explore_cmd(id: &str, n: u64, verif_seed: u64) -> i32 {
    // debugging aid: run n scenarios, print all mismatches (owned and others) grouped by signature
    let def = check_def(id).unwrap();
    exec::install_logger();
    let mut owned: BTreeMap<String, (u64, String, u64)> = BTreeMap::new();
    let mut others: BTreeMap<String, (u64, String, u64)> = BTreeMap::new();
    for k in 0..n {
        match gen_for(&def, verif_seed, k) {
            Err(e) => eprintln!("gen error run {k}: {e}"),
            Ok(sc) => {
                let (j, _res, _eff) = judge(id, &sc, def.hash_seeds.0);
                if let Some(e) = j.harness_error {
                    eprintln!("harness error run {k}: {e}");
                }
                for m in j.owned {
                    let e = owned.entry(m.sig()).or_insert((0, m.detail.clone(), k));
                    e.0 += 1;
                }
                for m in j.others {
                    let e = others.entry(m.sig()).or_insert((0, m.detail.clone(), k));
                    e.0 += 1;
                }
            }
        }
    }
    eprintln!("== owned");
    for (k, (n, d, r)) in owned {
        eprintln!("{n:6} {k}  [run {r}] {}", d.chars().take(220).collect::<String>());
    }
    eprintln!("== others");
    for (k, (n, d, r)) in others {
        eprintln!("{n:6} {k}  [run {r}] {}", d.chars().take(160).collect::<String>());
    }
    0
}

/// Determinism probe: an order-independent digest over the event logs of n runs (scenario,
/// every op outcome, output bytes, judged mismatches). Two processes, any worker count, same seed
/// must print the same line.
fn digest_cmd(id: &str, n: u64, verif_seed: u64) -> i32 {
    if id == "C03" {
        let fx = c03::load_fixtures();
        let mut acc: u64 = 0;
        for i in 0..n {
            let inp = c03::gen_input(verif_seed, i, &fx);
            let mut d = rng::hash_bytes(&inp.bytes);
            for e in c03::ENTRIES {
                d = rng::mix(d, match c03::parse_one(e, &inp.bytes) {
                    Ok(true) => 1,
                    Ok(false) => 2,
                    Err(p) => rng::hash_str(&p.sig()),
                });
            }
            acc = acc.wrapping_add(rng::mix(i, d));
        }
        report(&format!("DIGEST {id} runs={n} {:016x}", acc));
        return 0;
    }
    let def = match check_def(id) {
        Some(d) => d,
        None => return 2,
    };
    let workers: usize = std::env::var("VERIF_WORKERS").ok().and_then(|s| s.parse().ok()).unwrap_or(16);
    let next = AtomicU64::new(0);
    let acc = AtomicU64::new(0);
    let hs = def.hash_seeds.0;
    std::thread::scope(|s| {
        for _ in 0..workers {
            s.spawn(|| {
                exec::install_logger();
                loop {
                    let k = next.fetch_add(1, Ordering::Relaxed);
                    if k >= n {
                        break;
                    }
                    let d = match gen_for(&def, verif_seed, k) {
                        Err(e) => rng::hash_str(&e),
                        Ok(sc) => {
                            let (j, res, eff) = judge(def.id, &sc, hs);
                            let mut d = rng::hash_str(&serde_json::to_string(&eff).unwrap_or_default());
                            for l in trace_of(&eff, &res) {
                                d = rng::mix(d, rng::hash_str(&l));
                            }
                            for m in j.owned.iter().chain(j.others.iter()) {
                                d = rng::mix(d, rng::hash_str(&format!("{}|{}", m.sig(), m.detail)));
                            }
                            d
                        }
                    };
                    acc.fetch_add(rng::mix(k, d), Ordering::Relaxed);
                }
            });
        }
    });
    report(&format!("DIGEST {id} runs={n} {:016x}", acc.load(Ordering::Relaxed)));
    0
}

fn show_cmd(id: &str, run_no: u64, verif_seed: u64) -> i32 {
    let def = check_def(id).unwrap();
    exec::install_logger();
    let sc = gen_for(&def, verif_seed, run_no).unwrap();
    let (j, res, eff) = judge(id, &sc, def.hash_seeds.0);
    for l in trace_of(&eff, &res) {
        eprintln!("{l}");
    }
    for m in j.owned.iter().chain(j.others.iter()) {
        eprintln!("MISMATCH {} : {}", m.sig(), m.detail);
    }
    let bytes = sc.base.to_bytes();
    eprintln!("--- base\n{}", wasmprinter::print_bytes(&bytes).unwrap_or_default());
    if let Some(b) = oracle::first_bytes(&res) {
        eprintln!("--- output\n{}", wasmprinter::print_bytes(b).unwrap_or_else(|e| format!("unprintable: {e}")));
    }
    0
}

/// Where evidence and replay files go: /verif unless VERIF_OUT names another directory (used by
/// background sweeps so that they do not overwrite the evidence of the registered checks).
pub fn out_root() -> String {
    std::env::var("VERIF_OUT").ok().filter(|s| !s.is_empty()).unwrap_or_else(|| "/verif".to_string())
}

fn main() {
    let args: Vec<String> = std::env::args().collect();
    isolate_stdout();
    exec::install_panic_hook();
    std::env::remove_var("RUST_BACKTRACE");
    let _ = std::fs::create_dir_all("/verif/target/tmp");
    let seed: u64 = std::env::var("VERIF_SEED").ok().and_then(|s| s.parse().ok()).unwrap_or(DEFAULT_SEED);
    let code = match args.get(1).map(|s| s.as_str()) {
        Some("check") => {
            let id = args.get(2).cloned().unwrap_or_default();
            let tier = args
                .iter()
                .position(|a| a == "--tier")
                .and_then(|i| args.get(i + 1).cloned())
                .or_else(|| std::env::var("VERIF_TIER").ok())
                .unwrap_or("quick".into());
            if id == "C03" {
                c03::check_cmd(&tier, seed)
            } else {
                check_cmd(&id, &tier, seed)
            }
        }
        Some("c04-proc") => c04_proc_cmd(
            args.get(2).and_then(|s| s.parse().ok()).unwrap_or(seed),
            args.get(3).and_then(|s| s.parse().ok()).unwrap_or(1000),
            args.get(4).and_then(|s| s.parse().ok()).unwrap_or(16),
        ),
        Some("c04-one") => c04_one_cmd(args.get(2).map(|s| s.as_str()).unwrap_or("")),
        Some("c03-worker") => c03::worker_cmd(&args),
        Some("c03-one") => c03::one_cmd(args.get(2).map(|s| s.as_str()).unwrap_or("")),
        Some("replay") => replay_cmd(args.get(2).map(|s| s.as_str()).unwrap_or("")),
        Some("explore") => explore_cmd(&args[2], args.get(3).and_then(|s| s.parse().ok()).unwrap_or(1000), seed),
        Some("show") => show_cmd(&args[2], args.get(3).and_then(|s| s.parse().ok()).unwrap_or(0), seed),
        Some("selftest") => selftest::selftest_cmd(seed),
        Some("digest") => digest_cmd(&args[2], args.get(3).and_then(|s| s.parse().ok()).unwrap_or(2000), seed),
        _ => {
            eprintln!("usage: sim check <ID> [--tier quick|thorough] | replay <file> | explore <ID> <n> | show <ID> <run>");
            2
        }
    };
    let _ = std::io::stderr().flush();
    std::process::exit(code);
}

/// `sim c04-proc <verif seed> <count> <workers>`: prints `<run no> <outcome digest>` for the first
/// `count` C04 scenarios. Run from the *unhooked* build by the C04 cross-process phase: the library is
/// then the shipped code with std's per-process, per-thread hash keys.
fn c04_proc_cmd(verif_seed: u64, count: u64, workers: usize) -> i32 {
    let def = check_def("C04").unwrap();
    let next = AtomicU64::new(0);
    let lines: Mutex<Vec<(u64, String)>> = Mutex::new(vec![]);
    std::thread::scope(|s| {
        for _ in 0..workers.max(1) {
            s.spawn(|| {
                exec::install_logger();
                let mut local = vec![];
                loop {
                    let n = next.fetch_add(1, Ordering::Relaxed);
                    if n >= count {
                        break;
                    }
                    match gen_for(&def, verif_seed, n) {
                        Err(_) => local.push((n, "generr".to_string())),
                        Ok(sc) => local.push((n, format!("{:016x}", rng::hash_str(&checks::c04_outcome(&sc))))),
                    }
                }
                lines.lock().unwrap().extend(local);
            });
        }
    });
    let mut v = lines.into_inner().unwrap();
    v.sort();
    let mut out = String::new();
    for (n, d) in v {
        out.push_str(&format!("{n} {d}\n"));
    }
    report(out.trim_end());
    0
}

/// `sim c04-one <scenario.json>`: executes one scenario on three threads and prints one outcome line
/// per execution (see `checks::outcome_text`).
fn c04_one_cmd(path: &str) -> i32 {
    let sc: Scenario = match std::fs::read_to_string(path).map_err(|e| e.to_string()).and_then(|s| serde_json::from_str(&s).map_err(|e| e.to_string())) {
        Ok(s) => s,
        Err(e) => {
            eprintln!("harness: cannot read scenario {path}: {e}");
            return 2;
        }
    };
    for _ in 0..3 {
        let sc = sc.clone();
        let line = std::thread::spawn(move || {
            exec::install_logger();
            if sc.comp.is_some() {
                c26::comp_outcome(&sc)
            } else {
                checks::outcome_text(&exec::run(&sc))
            }
        })
        .join()
        .unwrap_or_else(|_| "thread panicked".into());
        report(&line);
    }
    0
}

/// `*` matches any (possibly empty) run of characters; everything else is literal.
pub fn glob_match(pat: &str, s: &str) -> bool {
    let parts: Vec<&str> = pat.split('*').collect();
    if parts.len() == 1 {
        return pat == s;
    }
    let mut pos = 0usize;
    for (i, p) in parts.iter().enumerate() {
        if i == 0 {
            if !s.starts_with(p) {
                return false;
            }
            pos = p.len();
        } else if i == parts.len() - 1 {
            return s.len() >= pos + p.len() && s[pos..].ends_with(p);
        } else {
            match s[pos..].find(p) {
                Some(k) => pos += k + p.len(),
                None => return false,
            }
        }
    }
    true
}

pub fn sig_priority(kind: &str) -> u8 {
    match kind {
        "unexpected_panic" => 1,
        "returned_id" | "getter_invariant" => 2,
        "entity_missing" | "entity_extra" | "entity_changed" => 3,
        "invalid_output" => 4,
        _ => 0,
    }
}
