//! The one place where the simulator touches the hash-seed seam of the library.
//! Built normally (`--cfg wirm_verif`, the hooked build) these are the library's own hook; built
//! without the cfg (the *unhooked* build used by the C04 cross-process phase) the library is the
//! shipped code with std's per-process `RandomState`, and the seam calls are no-ops.
#[cfg(wirm_verif)]
pub use wirm::verif::{hash_maps_created, set_hash_seed};
#[cfg(wirm_verif)]
pub type LibMap<K, V> = wirm::verif::HashMap<K, V>;

#[cfg(not(wirm_verif))]
pub fn set_hash_seed(_seed: u64) {}
#[cfg(not(wirm_verif))]
pub fn hash_maps_created() -> u64 {
    0
}
#[cfg(not(wirm_verif))]
pub type LibMap<K, V> = std::collections::HashMap<K, V>;

pub const HOOKED: bool = cfg!(wirm_verif);
