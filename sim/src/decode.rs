//! Decode an encoded module (the library's output) back into a `ModuleSpec` so that the oracle
//! compares everything in one vocabulary. Anything not representable becomes an `Unknown`/`Other`
//! marker (never silently dropped).
use crate::ins::{Ins, VT};
use crate::spec::*;
use wasmparser::{Parser, Payload};

fn vt(v: wasmparser::ValType) -> Result<VT, String> {
    VT::from_parser(v).ok_or_else(|| format!("unrepresentable valtype {:?}", v))
}

fn st(s: wasmparser::StorageType) -> Result<ST, String> {
    Ok(match s {
        wasmparser::StorageType::I8 => ST::I8,
        wasmparser::StorageType::I16 => ST::I16,
        wasmparser::StorageType::Val(v) => ST::Val(vt(v)?),
    })
}

pub fn decode_subtype(s: &wasmparser::SubType) -> Result<SubT, String> {
    let comp = match &s.composite_type.inner {
        wasmparser::CompositeInnerType::Func(f) => Comp::Func(
            f.params().iter().map(|v| vt(*v)).collect::<Result<_, _>>()?,
            f.results().iter().map(|v| vt(*v)).collect::<Result<_, _>>()?,
        ),
        wasmparser::CompositeInnerType::Struct(f) => Comp::Struct(
            f.fields
                .iter()
                .map(|x| Ok((st(x.element_type)?, x.mutable)))
                .collect::<Result<_, String>>()?,
        ),
        wasmparser::CompositeInnerType::Array(a) => Comp::Array(st(a.0.element_type)?, a.0.mutable),
        wasmparser::CompositeInnerType::Cont(_) => return Err("cont type".into()),
    };
    Ok(SubT {
        is_final: s.is_final,
        supertype: s.supertype_idx.and_then(|p| p.as_module_index()),
        shared: s.composite_type.shared,
        comp,
    })
}

fn names(m: wasmparser::NameMap) -> Result<Vec<(u32, String)>, String> {
    let mut v = vec![];
    for n in m {
        let n = n.map_err(|e| e.to_string())?;
        v.push((n.index, n.name.to_string()));
    }
    Ok(v)
}

pub fn decode(bytes: &[u8]) -> Result<ModuleSpec, String> {
    let mut m = ModuleSpec::default();
    let mut ord_seen: u8 = 0; // ordinal of the next standard section expected (for custom placement)
    let mut func_tys: Vec<u32> = vec![];
    let mut bodies: Vec<(Vec<(u32, VT)>, Vec<Ins>)> = vec![];
    for p in Parser::new(0).parse_all(bytes) {
        let p = p.map_err(|e| format!("parse: {e}"))?;
        match p {
            Payload::TypeSection(r) => {
                ord_seen = 1;
                for g in r {
                    let g = g.map_err(|e| e.to_string())?;
                    let explicit = g.is_explicit_rec_group();
                    let mut types = vec![];
                    for t in g.types() {
                        types.push(decode_subtype(t)?);
                    }
                    m.types.push(RecGroupSpec { explicit, types });
                }
            }
            Payload::ImportSection(r) => {
                ord_seen = 2;
                for i in r {
                    let i = i.map_err(|e| e.to_string())?;
                    let kind = match i.ty {
                        wasmparser::TypeRef::Func(t) => ImpKind::Func(t),
                        wasmparser::TypeRef::Global(g) => ImpKind::Global {
                            ty: vt(g.content_type)?,
                            mutable: g.mutable,
                        },
                        wasmparser::TypeRef::Memory(t) => ImpKind::Memory(MemT::from_parser(&t)),
                        wasmparser::TypeRef::Table(t) => ImpKind::Table(TableT {
                            min: t.initial,
                            max: t.maximum,
                            funcref: t.element_type == wasmparser::RefType::FUNCREF,
                        }),
                        wasmparser::TypeRef::Tag(t) => ImpKind::Tag(t.func_type_idx),
                    };
                    m.imports.push(ImportSpec {
                        module: i.module.to_string(),
                        name: i.name.to_string(),
                        kind,
                    });
                }
            }
            Payload::FunctionSection(r) => {
                ord_seen = 3;
                for f in r {
                    func_tys.push(f.map_err(|e| e.to_string())?);
                }
            }
            Payload::TableSection(r) => {
                ord_seen = 4;
                for t in r {
                    let t = t.map_err(|e| e.to_string())?;
                    let init = match &t.init {
                        wasmparser::TableInit::RefNull => None,
                        wasmparser::TableInit::Expr(e) => Some(ConstE::from_parser(e)?),
                    };
                    m.tables.push(TableSpec {
                        ty: TableT {
                            min: t.ty.initial,
                            max: t.ty.maximum,
                            funcref: t.ty.element_type == wasmparser::RefType::FUNCREF,
                        },
                        init,
                    });
                }
            }
            Payload::MemorySection(r) => {
                ord_seen = 5;
                for t in r {
                    m.memories.push(MemT::from_parser(&t.map_err(|e| e.to_string())?));
                }
            }
            Payload::TagSection(r) => {
                ord_seen = 6;
                for t in r {
                    m.tags.push(t.map_err(|e| e.to_string())?.func_type_idx);
                }
            }
            Payload::GlobalSection(r) => {
                ord_seen = 7;
                for g in r {
                    let g = g.map_err(|e| e.to_string())?;
                    m.globals.push(GlobalSpec {
                        ty: vt(g.ty.content_type)?,
                        mutable: g.ty.mutable,
                        init: ConstE::from_parser(&g.init_expr)?,
                    });
                }
            }
            Payload::ExportSection(r) => {
                ord_seen = 8;
                for e in r {
                    let e = e.map_err(|e| e.to_string())?;
                    m.exports.push(ExportSpec {
                        name: e.name.to_string(),
                        kind: ExtKind::from_parser(e.kind),
                        index: e.index,
                    });
                }
            }
            Payload::StartSection { func, .. } => {
                ord_seen = 9;
                m.start = Some(func);
            }
            Payload::ElementSection(r) => {
                ord_seen = 10;
                for e in r {
                    let e = e.map_err(|e| e.to_string())?;
                    let mode = match &e.kind {
                        wasmparser::ElementKind::Passive => ElemMode::Passive,
                        wasmparser::ElementKind::Declared => ElemMode::Declared,
                        wasmparser::ElementKind::Active {
                            table_index,
                            offset_expr,
                        } => ElemMode::Active {
                            table: *table_index,
                            offset: ConstE::from_parser(offset_expr)?,
                        },
                    };
                    let mut elem_ty = None;
                    let items = match e.items {
                        wasmparser::ElementItems::Functions(r) => {
                            ElemItems::Funcs(r.into_iter().collect::<Result<_, _>>().map_err(|e| e.to_string())?)
                        }
                        wasmparser::ElementItems::Expressions(rt, r) => {
                            if let wasmparser::HeapType::Concrete(i) = rt.heap_type() {
                                elem_ty = i.as_module_index().map(|t| (t, rt.is_nullable()));
                            }
                            let mut v = vec![];
                            for x in r {
                                v.push(ConstE::from_parser(&x.map_err(|e| e.to_string())?)?);
                            }
                            ElemItems::Exprs(v)
                        }
                    };
                    m.elems.push(ElemSpec { mode, items, ty: elem_ty });
                }
            }
            Payload::DataCountSection { .. } => {
                ord_seen = 11;
                m.data_count = true;
            }
            Payload::CodeSectionStart { .. } => {
                ord_seen = 12;
            }
            Payload::CodeSectionEntry(b) => {
                let mut locals = vec![];
                for l in b.get_locals_reader().map_err(|e| e.to_string())? {
                    let (n, t) = l.map_err(|e| e.to_string())?;
                    locals.push((n, vt(t)?));
                }
                let mut ins = vec![];
                for op in b.get_operators_reader().map_err(|e| e.to_string())? {
                    ins.push(Ins::from_op(&op.map_err(|e| e.to_string())?));
                }
                bodies.push((locals, ins));
            }
            Payload::DataSection(r) => {
                ord_seen = 13;
                for d in r {
                    let d = d.map_err(|e| e.to_string())?;
                    let mode = match &d.kind {
                        wasmparser::DataKind::Passive => DataMode::Passive,
                        wasmparser::DataKind::Active {
                            memory_index,
                            offset_expr,
                        } => DataMode::Active {
                            mem: *memory_index,
                            offset: ConstE::from_parser(offset_expr)?,
                        },
                    };
                    m.data.push(DataSpec {
                        mode,
                        bytes: d.data.to_vec(),
                    });
                }
            }
            Payload::CustomSection(c) => match c.as_known() {
                wasmparser::KnownCustom::Name(r) => {
                    for sub in r {
                        match sub.map_err(|e| e.to_string())? {
                            wasmparser::Name::Module { name, .. } => m.names.module = Some(name.to_string()),
                            wasmparser::Name::Function(n) => m.names.funcs = names(n)?,
                            wasmparser::Name::Local(n) => {
                                for x in n {
                                    let x = x.map_err(|e| e.to_string())?;
                                    m.names.locals.push((x.index, names(x.names)?));
                                }
                            }
                            wasmparser::Name::Global(n) => m.names.globals = names(n)?,
                            wasmparser::Name::Memory(n) => m.names.memories = names(n)?,
                            wasmparser::Name::Table(n) => m.names.tables = names(n)?,
                            wasmparser::Name::Type(n) => m.names.types = names(n)?,
                            wasmparser::Name::Data(n) => m.names.data = names(n)?,
                            wasmparser::Name::Element(n) => m.names.elems = names(n)?,
                            _ => {}
                        }
                    }
                }
                _ => m.customs.push(CustomSpec {
                    name: c.name().to_string(),
                    data: c.data().to_vec(),
                    place: ord_seen,
                }),
            },
            Payload::Version { .. } | Payload::End(_) => {}
            other => return Err(format!("unexpected payload {:?}", other)),
        }
    }
    if func_tys.len() != bodies.len() {
        return Err(format!(
            "function section {} vs code section {}",
            func_tys.len(),
            bodies.len()
        ));
    }
    for (ty, (locals, body)) in func_tys.into_iter().zip(bodies) {
        m.funcs.push(FuncSpec { ty, locals, body });
    }
    Ok(m)
}
