//! The only source of randomness in the simulator: SplitMix64 for seed derivation and
//! xoshiro256** for the per-run stream. Nothing here reads a clock or the OS.

pub fn splitmix(x: &mut u64) -> u64 {
    *x = x.wrapping_add(0x9E3779B97F4A7C15);
    let mut z = *x;
    z = (z ^ (z >> 30)).wrapping_mul(0xBF58476D1CE4E5B9);
    z = (z ^ (z >> 27)).wrapping_mul(0x94D049BB133111EB);
    z ^ (z >> 31)
}

pub fn mix(a: u64, b: u64) -> u64 {
    let mut s = a ^ b.wrapping_mul(0xD6E8FEB86659FD93);
    let x = splitmix(&mut s);
    let mut t = x ^ b;
    splitmix(&mut t)
}

pub fn hash_str(s: &str) -> u64 {
    // FNV-1a, deterministic across processes
    let mut h: u64 = 0xcbf29ce484222325;
    for b in s.as_bytes() {
        h ^= *b as u64;
        h = h.wrapping_mul(0x100000001b3);
    }
    h
}

pub fn hash_bytes(s: &[u8]) -> u64 {
    let mut h: u64 = 0xcbf29ce484222325;
    for b in s {
        h ^= *b as u64;
        h = h.wrapping_mul(0x100000001b3);
    }
    h
}

#[derive(Clone, Debug)]
pub struct Rng {
    s: [u64; 4],
}

impl Rng {
    pub fn new(seed: u64) -> Self {
        let mut x = seed;
        let s = [
            splitmix(&mut x),
            splitmix(&mut x),
            splitmix(&mut x),
            splitmix(&mut x),
        ];
        Rng { s }
    }
    pub fn next(&mut self) -> u64 {
        let r = self.s[1].wrapping_mul(5).rotate_left(7).wrapping_mul(9);
        let t = self.s[1] << 17;
        self.s[2] ^= self.s[0];
        self.s[3] ^= self.s[1];
        self.s[1] ^= self.s[2];
        self.s[0] ^= self.s[3];
        self.s[2] ^= t;
        self.s[3] = self.s[3].rotate_left(45);
        r
    }
    /// uniform in 0..n (n>0)
    pub fn below(&mut self, n: usize) -> usize {
        if n <= 1 {
            return 0;
        }
        (self.next() % n as u64) as usize
    }
    /// inclusive range
    pub fn range(&mut self, lo: usize, hi: usize) -> usize {
        lo + self.below(hi - lo + 1)
    }
    pub fn chance(&mut self, num: u32, den: u32) -> bool {
        (self.next() % den as u64) < num as u64
    }
    pub fn pick<'a, T>(&mut self, v: &'a [T]) -> &'a T {
        &v[self.below(v.len())]
    }
    pub fn pick_opt<'a, T>(&mut self, v: &'a [T]) -> Option<&'a T> {
        if v.is_empty() {
            None
        } else {
            Some(&v[self.below(v.len())])
        }
    }
    /// geometric-ish length with given mean, capped
    pub fn geom(&mut self, mean: usize, cap: usize) -> usize {
        let mut n = 0;
        while n < cap && !self.chance(1, mean as u32 + 1) {
            n += 1;
        }
        n
    }
    pub fn shuffle<T>(&mut self, v: &mut [T]) {
        for i in (1..v.len()).rev() {
            let j = self.below(i + 1);
            v.swap(i, j);
        }
    }
    pub fn bytes(&mut self, n: usize) -> Vec<u8> {
        (0..n).map(|_| self.next() as u8).collect()
    }
}
