//! Per-property check definitions: workload profiles, oracles (which mismatch kinds a property
//! owns) and tier budgets.
use crate::exec::{run, RunResult, Scenario, TailOutcome};
use crate::gen::*;
use crate::model::*;
use crate::oracle::*;

pub struct CheckDef {
    pub id: &'static str,
    pub profiles: Vec<Profile>,
    pub quick_runs: u64,
    pub thorough_runs: u64,
    pub hash_seeds: (usize, usize),
    pub reencode_tail: bool,
}

fn w(v: &[(&'static str, u32)]) -> Vec<(&'static str, u32)> {
    v.to_vec()
}

pub fn func_edit_profile() -> Profile {
    let mut p = Profile::base("func-edit");
    p.max_globals = 2;
    p.ops = w(&[
        ("add_import_func", 5),
        ("build_func", 5),
        ("delete_func", 3),
        ("convert_local_to_import", 4),
        ("replace_import", 3),
        ("set_fn_name", 1),
        ("inject", 4),
        ("add_export_func", 2),
        ("add_global", 1),
    ]);
    // function-level probes too: their bodies are copied around by the lowering and carry references
    p.modes = vec![Mode::Before, Mode::After, Mode::Alternate, Mode::EmptyAlternate, Mode::Before, Mode::After, Mode::FuncEntry, Mode::FuncExit];
    p
}

pub fn global_edit_profile() -> Profile {
    let mut p = Profile::base("global-edit");
    // GC types so that aggregate initialisers (several references in one initialiser) can be generated
    p.gc_types = true;
    p.modes = vec![Mode::Before, Mode::After, Mode::Alternate, Mode::EmptyAlternate, Mode::Before, Mode::After, Mode::FuncEntry, Mode::FuncExit];
    p.max_globals = 4;
    p.atomics = true;
    p.max_imp_funcs = 2;
    p.ops = w(&[
        ("add_global", 5),
        ("add_imported_global", 5),
        ("iter_add_global", 2),
        ("delete_global", 3),
        ("mod_global_init", 2),
        ("inject", 4),
        ("build_func", 2),
    ]);
    p
}

pub fn memory_edit_profile() -> Profile {
    let mut p = Profile::base("memory-edit");
    p.modes = vec![Mode::Before, Mode::After, Mode::Alternate, Mode::EmptyAlternate, Mode::Before, Mode::After, Mode::FuncEntry, Mode::FuncExit];
    p.max_mems = 3;
    p.multi_memory = true;
    p.atomics = true;
    p.simd = true;
    p.max_globals = 1;
    p.ops = w(&[
        ("add_local_memory", 5),
        ("add_import_memory", 5),
        ("delete_memory", 3),
        ("inject", 4),
        ("build_func", 2),
        ("add_export_mem", 2),
        ("add_data", 2),
    ]);
    p
}

/// the same edits on a module that was parsed with `enable_multi_memory == false`: one memory in the
/// input, more after the edits
pub fn memory_flag_off_profile() -> Profile {
    let mut p = memory_edit_profile();
    p.name = "memory-edit-flag-off";
    p.max_mems = 1;
    p.multi_memory = false;
    p.add_mem_anyway = true;
    p
}

pub fn delete_profile(dangling: bool) -> Profile {
    let mut p = Profile::base(if dangling { "delete-dangling" } else { "delete-clean" });
    p.max_mems = 2;
    p.multi_memory = true;
    p.dangling = dangling;
    p.ops = w(&[
        ("delete_func", 5),
        ("delete_global", 4),
        ("delete_memory", 3),
        ("delete_export", 3),
        ("add_export_func", 1),
        ("add_import_func", 2),
        ("build_func", 2),
        ("add_global", 2),
        ("add_imported_global", 1),
        ("add_local_memory", 1),
    ]);
    p
}

pub fn replace_profile() -> Profile {
    let mut p = Profile::base("replace");
    p.max_imp_funcs = 5;
    p.ops = w(&[
        ("replace_import", 8),
        ("add_import_func", 2),
        ("build_func", 2),
        ("delete_func", 1),
        ("inject", 2),
    ]);
    p
}

pub fn convert_profile() -> Profile {
    let mut p = Profile::base("convert");
    p.max_local_funcs = 6;
    p.min_local_funcs = 1;
    p.ops = w(&[
        ("convert_local_to_import", 8),
        ("add_import_func", 4),
        ("build_func", 2),
        ("inject", 2),
    ]);
    // structurally equal duplicates in the type section: the type ID given at conversion is then one of
    // several candidates and must be the one the import entry carries
    p.dup_types = true;
    p
}

pub fn builder_profile() -> Profile {
    let mut p = Profile::base("builder");
    p.names = true;
    p.ops = w(&[
        ("build_func", 8),
        ("add_import_func", 2),
        ("delete_func", 1),
        ("add_global", 1),
        ("set_fn_name", 1),
        ("inject", 1),
        // functions are also built while other edits are pending
        ("convert_local_to_import", 2),
        ("replace_import", 1),
    ]);
    p
}

/// bodies that exist only because a built function replaced an import: the module is parsed without
/// any local function and nothing is ever added through `finish_module`
pub fn builder_imports_only_profile() -> Profile {
    let mut p = builder_profile();
    p.name = "builder-on-imports-only";
    p.min_local_funcs = 0;
    p.max_local_funcs = 0;
    p.max_imp_funcs = 4;
    p.ops = w(&[("replace_import", 8), ("add_import_func", 2), ("set_fn_name", 1), ("inject", 1), ("add_global", 1)]);
    p
}

/// builder on modules whose type section has explicit rec groups, GC types and duplicates
/// (type IDs of new signatures are then not simply "number of groups")
pub fn builder_gc_profile() -> Profile {
    let mut p = builder_profile();
    p.name = "builder-gc";
    p.gc_types = true;
    p.dup_types = true;
    p
}

pub fn types_profile() -> Profile {
    let mut p = Profile::base("types");
    p.gc_types = true;
    p.dup_types = true;
    p.ops = w(&[("add_type", 10), ("build_func", 2), ("add_import_func", 1)]);
    p.mean_ops = 5;
    p
}

pub fn locals_profile() -> Profile {
    let mut p = Profile::base("locals");
    p.min_local_funcs = 1;
    p.simd = true;
    // locals are also added to functions that came into being by replacing an import
    p.ops = w(&[("add_local", 10), ("build_func", 2), ("inject", 3), ("replace_import", 2)]);
    // semantic-after on branches makes the library add its own i32 flag locals behind the user's
    p.modes = vec![Mode::Before, Mode::After, Mode::Alternate, Mode::EmptyAlternate, Mode::SemanticAfter, Mode::SemanticAfter];
    p.mean_ops = 5;
    p
}

pub fn simple_modes_profile() -> Profile {
    let mut p = Profile::base("simple-modes");
    p.min_local_funcs = 1;
    p.ops = w(&[("inject", 10), ("add_import_func", 1), ("build_func", 1)]);
    p.modes = SIMPLE_MODES.to_vec();
    p.final_end_after = true;
    p.clears = true;
    p.mean_ops = 5;
    p
}

pub fn block_alt_profile() -> Profile {
    let mut p = Profile::base("block-alt");
    p.min_local_funcs = 1;
    p.ops = w(&[("inject", 10), ("build_func", 1)]);
    p.modes = vec![
        Mode::BlockAlt,
        Mode::EmptyBlockAlt,
        Mode::BlockAlt,
        Mode::EmptyBlockAlt,
        Mode::Before,
        Mode::After,
        Mode::Alternate,
    ];
    p.mean_ops = 4;
    p
}

/// block-alternate on constructs whose interior carries instrumentation of every mode (and the
/// other way round): everything inside the replaced construct goes away with it
pub fn region_profile() -> Profile {
    let mut p = Profile::base("region-interior");
    p.min_local_funcs = 1;
    p.ops = w(&[("inject", 10), ("build_func", 1)]);
    p.modes = vec![
        Mode::BlockAlt,
        Mode::EmptyBlockAlt,
        Mode::BlockAlt,
        Mode::Before,
        Mode::After,
        Mode::Alternate,
        Mode::SemanticAfter,
        Mode::BlockEntry,
        Mode::BlockExit,
        Mode::BlockEntry,
        Mode::BlockExit,
    ];
    p.region_interior = true;
    p.opener_special = true;
    p.mean_ops = 5;
    p
}

pub fn special_profile() -> Profile {
    let mut p = Profile::base("special-modes");
    p.min_local_funcs = 1;
    p.ops = w(&[("inject", 10), ("build_func", 1), ("add_import_func", 1)]);
    p.modes = ALL_MODES.to_vec();
    p.misapplied = true;
    p.clears = true;
    // tags do not change what is encoded, but attaching one creates the request it belongs to
    p.tags = true;
    p.mean_ops = 4;
    p
}

/// modules parsed without any local function whose only bodies come from replacing imports, then
/// instrumented with every mode (counters that only parsing / add_local_func maintain stay at zero)
pub fn special_replaced_profile() -> Profile {
    let mut p = special_profile();
    p.name = "special-on-replaced-imports";
    p.min_local_funcs = 0;
    p.max_local_funcs = 0;
    p.max_imp_funcs = 4;
    p.ops = w(&[("replace_import", 6), ("inject", 10), ("add_import_func", 1)]);
    p
}

/// many semantic-after probes on the branches of one or two functions: several bodies get resolved
/// at the same `end` (repeated br_table targets, several branches to one block)
pub fn sa_dense_profile() -> Profile {
    let mut p = Profile::base("semantic-after-dense");
    p.min_local_funcs = 1;
    p.max_local_funcs = 2;
    p.max_imp_funcs = 1;
    p.ops = w(&[("inject", 10)]);
    p.modes = vec![Mode::SemanticAfter, Mode::SemanticAfter, Mode::SemanticAfter, Mode::SemanticAfter, Mode::BlockExit, Mode::Before];
    p.mean_ops = 7;
    p
}

pub fn iterate_profile() -> Profile {
    let mut p = Profile::base("iterate");
    p.max_local_funcs = 5;
    p.min_local_funcs = 0;
    // histories that change which function IDs have a body (replaced imports keep their ID in the import
    // range, converted locals lose their body; deleted functions are left out: whether the cursor visits the
    // instructions of a function flagged as deleted is not stated by the property)
    p.ops = w(&[("build_func", 3), ("add_import_func", 2), ("add_global", 1), ("replace_import", 3), ("convert_local_to_import", 2)]);
    p.mean_ops = 2;
    // functions whose body is only the final `end`: one position, end flag set, still visited
    p.empty_bodies = true;
    p
}

/// C25: the recorded trajectories of the real iterator must equal the model's visit list.
pub fn judge_c25(sc: &Scenario, res: &RunResult) -> Judged {
    let mut owned = vec![];
    let plan = match &sc.walk {
        Some(p) => p,
        None => {
            return Judged {
                owned,
                others: vec![],
                harness_error: Some("C25 scenario without walk plan".into()),
            }
        }
    };
    let expected = crate::exec::expected_walk(&res.model, plan);
    for w in &res.walks {
        match &w.result {
            Err(p) => owned.push(Mismatch::new(
                "iterator_panic",
                &format!("{}:{}", if expected.is_empty() { "nothing_to_visit" } else { w.what.as_str() }, p.sig()),
                format!("{:?} (skip {:?})", p, plan.skip),
            )),
            Ok(v) => {
                let exp: &[crate::exec::Visit] = if w.what == "empty" { &[] } else { &expected };
                if v.as_slice() != exp {
                    let k = v.iter().zip(exp.iter()).position(|(a, b)| a != b).unwrap_or(v.len().min(exp.len()));
                    let class = match (v.get(k), exp.get(k)) {
                        (None, Some(_)) => "stops_early",
                        (Some(_), None) => "visits_too_much",
                        (Some(a), Some(b)) if a.0 != b.0 || a.1 != b.1 => "location",
                        (Some(a), Some(b)) if a.2 != b.2 => "end_flag",
                        _ => "instruction",
                    };
                    owned.push(Mismatch::new(
                        "iterator_trajectory",
                        &format!("{}:{class}", w.what),
                        format!("skip {:?}: position {k}: visited {:?}, expected {:?} ({} vs {} positions)", plan.skip, v.get(k), exp.get(k), v.len(), exp.len()),
                    ));
                }
            }
        }
    }
    for m in judge_panics(sc, res) {
        if m.kind == "unexpected_panic" {
            // not this property's business (e.g. builder panics); keep as observation
        }
    }
    Judged {
        owned,
        others: vec![],
        harness_error: res.parse_err.clone().map(|e| format!("library refused a validated base module: {e}")),
    }
}

pub fn custom_profile() -> Profile {
    let mut p = Profile::base("custom");
    p.customs = true;
    p.names = true;
    p.ops = w(&[
        ("custom_add", 5),
        ("custom_delete", 4),
        ("custom_edit", 4),
        ("add_global", 1),
        ("build_func", 1),
    ]);
    p
}

pub fn names_profile() -> Profile {
    let mut p = Profile::base("names");
    p.names = true;
    p.max_globals = 4;
    p.ops = w(&[
        ("set_fn_name", 4),
        ("imports_set_name", 2),
        ("add_import_func", 3),
        ("build_func", 3),
        ("delete_func", 2),
        ("add_imported_global", 3),
        ("add_global", 2),
        ("delete_global", 2),
        ("convert_local_to_import", 1),
        ("replace_import", 1),
    ]);
    p
}

pub fn additions_profile() -> Profile {
    let mut p = Profile::base("additions");
    p.simd = true;
    p.max_mems = 2;
    p.multi_memory = true;
    p.ops = w(&[
        ("add_global", 6),
        ("add_imported_global", 2),
        ("add_data", 4),
        ("add_local_memory", 3),
        ("add_import_memory", 2),
        ("add_export_func", 3),
        ("add_export_mem", 2),
        ("delete_export", 2),
        ("mod_global_init", 3),
        // additions are also made after (or before) original entities were deleted: the returned IDs
        // must still designate the added items once the index spaces are re-organised
        ("delete_global", 1),
        ("delete_memory", 1),
    ]);
    p.mean_ops = 5;
    p
}

pub fn tagged_profile() -> Profile {
    let mut p = Profile::base("tagged");
    p.tags = true;
    p.min_local_funcs = 1;
    p.max_mems = 2;
    p.multi_memory = true;
    p.ops = w(&[
        ("add_import_func", 2),
        ("build_func", 3),
        ("add_global", 2),
        ("add_imported_global", 1),
        ("add_local_memory", 1),
        ("add_import_memory", 1),
        ("add_data", 2),
        ("add_export_func", 2),
        ("delete_export", 1),
        ("add_type", 2),
        ("inject", 6),
        ("convert_local_to_import", 1),
        ("replace_import", 2),
    ]);
    p.modes = ALL_MODES.to_vec();
    p
}

pub fn mixed_profile() -> Profile {
    // used by C04/C05: everything at once, including special modes and duplicate types
    let mut p = Profile::base("mixed");
    p.dup_types = true;
    p.max_mems = 2;
    p.multi_memory = true;
    p.names = true;
    p.customs = true;
    p.tags = true;
    p.ops = w(&[
        ("add_import_func", 3),
        ("build_func", 4),
        ("delete_func", 1),
        ("convert_local_to_import", 2),
        ("replace_import", 2),
        ("add_global", 2),
        ("add_imported_global", 2),
        ("delete_global", 1),
        ("add_local_memory", 1),
        ("add_import_memory", 1),
        ("add_type", 2),
        ("add_local", 1),
        ("inject", 8),
    ]);
    p.modes = ALL_MODES.to_vec();
    p
}

pub fn check_def(id: &str) -> Option<CheckDef> {
    let d = |id: &'static str, profiles: Vec<Profile>| CheckDef {
        id,
        profiles,
        quick_runs: 150_000,
        thorough_runs: 4_000_000,
        hash_seeds: (1, 1),
        reencode_tail: false,
    };
    Some(match id {
        "C04" => CheckDef {
            hash_seeds: (4, 16),
            quick_runs: 40_000,
            thorough_runs: 400_000,
            ..d("C04", vec![mixed_profile(), func_edit_profile(), types_profile(), special_profile(), sa_dense_profile()])
        },
        "C05" => CheckDef {
            reencode_tail: true,
            ..d("C05", vec![mixed_profile(), func_edit_profile(), global_edit_profile(), memory_edit_profile(), special_profile(), region_profile(), sa_dense_profile()])
        },
        "C06" => d("C06", vec![func_edit_profile()]),
        "C07" => d("C07", vec![global_edit_profile()]),
        "C08" => d("C08", vec![memory_edit_profile(), memory_edit_profile(), memory_flag_off_profile()]),
        "C09" => d("C09", vec![delete_profile(false), delete_profile(true)]),
        "C10" => d("C10", vec![replace_profile()]),
        "C11" => d("C11", vec![convert_profile()]),
        "C12" => d("C12", vec![builder_profile(), builder_gc_profile(), builder_profile(), builder_imports_only_profile()]),
        "C13" => CheckDef {
            hash_seeds: (4, 8),
            quick_runs: 40_000,
            thorough_runs: 600_000,
            ..d("C13", vec![types_profile()])
        },
        "C14" => d("C14", vec![locals_profile()]),
        "C15" => d("C15", vec![simple_modes_profile()]),
        "C21" => d("C21", vec![block_alt_profile(), region_profile()]),
        "C22" => d("C22", vec![special_profile(), special_profile(), region_profile(), special_replaced_profile()]),
        "C16" | "C17" | "C18" | "C19" | "C20" => CheckDef {
            quick_runs: 60_000,
            thorough_runs: 2_000_000,
            ..d(
                match id {
                    "C16" => "C16",
                    "C17" => "C17",
                    "C18" => "C18",
                    "C19" => "C19",
                    _ => "C20",
                },
                vec![],
            )
        },
        "C23" => CheckDef {
            quick_runs: 80_000,
            thorough_runs: 2_000_000,
            ..d("C23", vec![tagged_profile()])
        },
        "C25" => CheckDef { quick_runs: 400_000, thorough_runs: 10_000_000, ..d("C25", vec![iterate_profile()]) },
        "C26" => CheckDef {
            quick_runs: 300_000,
            thorough_runs: 8_000_000,
            hash_seeds: (1, 1),
            ..d("C26", vec![])
        },
        "C28" => d("C28", vec![custom_profile()]),
        "C29" => d("C29", vec![names_profile()]),
        "C30" => d("C30", vec![additions_profile()]),
        _ => return None,
    })
}

fn owns(id: &str, m: &Mismatch) -> bool {
    let k = m.kind.as_str();
    let s = m.site.as_str();
    let generic = matches!(k, "invalid_output" | "unexpected_panic" | "returned_id" | "getter_invariant");
    match id {
        "C06" | "C10" | "C11" => {
            generic
                || k == "func_ref"
                || (matches!(k, "entity_missing" | "entity_extra") && matches!(s, "func" | "import" | "start" | "export(func)" | "export(func)(added)"))
                || (k == "entity_changed" && s == "import.type")
        }
        "C07" => generic || k == "global_ref" || (matches!(k, "entity_missing" | "entity_extra") && matches!(s, "global" | "export(global)")),
        "C08" => generic || k == "mem_ref" || (matches!(k, "entity_missing" | "entity_extra") && matches!(s, "memory" | "export(memory)" | "export(memory)(added)")),
        "C09" => {
            matches!(k, "entity_missing" | "entity_extra" | "entity_changed" | "silent_success_on_dangling_ref")
                || (k == "unexpected_panic" && s.starts_with("op:delete"))
        }
        "C12" => {
            (matches!(k, "name_lost" | "name_migrated") && s == "func(built)")
                || (matches!(k, "func_ref" | "global_ref" | "mem_ref") && s.ends_with("(built)"))
                || (k == "entity_changed" && s.starts_with("func(built)"))
                || (k == "local_decl" && s == "func(built)")
                || (k == "body_sequence" && s.starts_with("func(built)"))
                || (k == "returned_id" && s == "build_func")
                || (k == "unexpected_panic" && s.starts_with("op:build_func"))
                || (k == "entity_missing" && s == "func")
                // an output that does not decode shows no built function at all (every history of the
                // builder profiles builds at least one)
                || k == "invalid_output"
        }
        "C13" => {
            matches!(k, "type_at_index" | "type_existing_changed")
                || (k == "returned_id" && s == "add_type")
                || (k == "unexpected_panic" && s.starts_with("op:add_type"))
        }
        "C14" => {
            k == "local_decl" || (k == "returned_id" && s == "add_local") || (k == "unexpected_panic" && s.starts_with("op:add_local"))
        }
        "C18" => matches!(k, "removed_region_probe" | "replaced_opener_probe") && s == "block_entry",
        "C19" => matches!(k, "removed_region_probe" | "replaced_opener_probe") && s == "block_exit",
        "C20" => matches!(k, "removed_region_probe" | "replaced_opener_probe") && s == "semantic_after",
        // C21: "all other instructions and their instrumentation are unaffected" - a probe outside the
        // replaced construct that is missing from the output is a C21 matter as well
        "C15" | "C21" => k == "body_sequence" || (id == "C21" && matches!(k, "removed_region_probe" | "replaced_opener_probe" | "probe_missing")) || (k == "unexpected_panic" && (s.starts_with("op:inject") || s.starts_with("encode"))) || k == "invalid_output",
        "C22" => matches!(k, "probe_missing" | "bug_log_line"),
        // (the ID `add` returns is the handle later modifications go through)
        "C28" => k == "custom_section" || (k == "returned_id" && s == "custom_add") || (k == "unexpected_panic" && s.starts_with("op:custom")),
        "C29" => matches!(k, "name_migrated" | "name_lost"),
        "C30" => {
            (k == "entity_missing" && s.starts_with("export") && s.ends_with("(added)"))
                || (k == "entity_changed" && (s.contains("(added)") || s.starts_with("global.init") || s.starts_with("data")))
                || (k == "returned_id" && matches!(s, "add_global" | "add_imported_global" | "add_data" | "add_local_memory" | "add_import_memory"))
                || (matches!(k, "func_ref" | "mem_ref") && s == "export(added)")
                || (k == "mem_ref" && s == "data.mem")
                || (k == "global_ref" && (s == "global.get(data.offset)" || s == "global.get(global.init)"))
                || (k == "func_ref" && s == "ref.func(global.init)")
                || generic
        }
        _ => false,
    }
}

pub struct Judged {
    pub owned: Vec<Mismatch>,
    pub others: Vec<Mismatch>,
    pub harness_error: Option<String>,
}

/// Structural judgement of one executed scenario.
pub fn judge_structural(id: &str, sc: &Scenario, res: &RunResult) -> Judged {
    let mut all = judge_panics(sc, res);
    let mut harness_error = None;
    if let Some(e) = &res.parse_err {
        harness_error = Some(format!("library refused a validated base module: {e}"));
    }
    for l in &res.logs {
        // (not when a rejected request left its tag behind: the log line is then about a request that WAS
        // rejected at the call, which is what C22 asks for)
        if l.contains("BUG:") && !res.tag_residue {
            let short: String = l.chars().take(50).collect();
            all.push(Mismatch::new("bug_log_line", &short, l.clone()));
        }
    }
    if let Some(b) = first_bytes(res) {
        match check_output(&res.model, b) {
            Ok(m) => all.extend(m),
            Err(e) => harness_error = Some(e),
        }
        // a later encoding of the same, unedited module must satisfy the model as well
        let last = res.tails.iter().rev().find_map(|t| match t {
            TailOutcome::Bytes(x) => Some(x),
            _ => None,
        });
        if let Some(l) = last {
            if l != b {
                match check_output(&res.model, l) {
                    Ok(m) => {
                        for mut x in m {
                            if !all.iter().any(|y| y.sig() == x.sig()) {
                                x.detail = format!("(in a later encoding of the unedited module) {}", x.detail);
                                all.push(x);
                            }
                        }
                    }
                    Err(e) => harness_error = Some(e),
                }
            }
        }
    } else if harness_error.is_none() {
        // no output: with dangling references a loud failure is the expected outcome
        let (df, dg, dm) = res.model.dangling();
        let _ = (df, dg, dm);
    }
    let (owned, others): (Vec<_>, Vec<_>) = all.into_iter().partition(|m| owns(id, m));
    Judged {
        owned,
        others,
        harness_error,
    }
}

/// C05: every successful encoding in the tail equals the first one; failing emits report Err.
pub fn judge_c05(_sc: &Scenario, res: &RunResult) -> Judged {
    let mut owned = vec![];
    let mut first: Option<&Vec<u8>> = None;
    let mut k = 0;
    for t in &res.tails {
        match t {
            TailOutcome::Bytes(b) => {
                k += 1;
                match first {
                    None => first = Some(b),
                    Some(f) => {
                        if f != b {
                            let site = diff_site(f, b);
                            owned.push(Mismatch::new("reencode_differs", &site, format!("encoding #{k} differs from encoding #1 ({} vs {} bytes)", b.len(), f.len())));
                            break;
                        }
                    }
                }
            }
            TailOutcome::EmitUnexpectedOk => owned.push(Mismatch::new("emit_fail_not_reported", "emit", "emit_wasm to a failing path returned Ok".into())),
            TailOutcome::EmitErr(e) if e.starts_with("unexpected") => {
                return Judged {
                    owned: vec![],
                    others: vec![],
                    harness_error: Some(format!("emit to tmp file failed: {e}")),
                }
            }
            TailOutcome::Panicked(p) => {
                if first.is_some() {
                    owned.push(Mismatch::new("reencode_differs", &format!("panic:{}", p.sig()), format!("encoding #{} panicked after a successful first encoding: {:?}", k + 1, p)));
                }
                break;
            }
            _ => {}
        }
    }
    Judged {
        owned,
        others: vec![],
        harness_error: res.parse_err.clone().map(|e| format!("library refused a validated base module: {e}")),
    }
}

/// Which section first differs between two encodings (best effort, for the signature).
pub fn diff_site(a: &[u8], b: &[u8]) -> String {
    let secs = |x: &[u8]| -> Vec<(u8, Vec<u8>)> {
        let mut v = vec![];
        for p in wasmparser::Parser::new(0).parse_all(x) {
            if let Ok(p) = p {
                if let Some((id, r)) = p.as_section() {
                    v.push((id, x[r].to_vec()));
                }
            }
        }
        v
    };
    let (sa, sb) = (secs(a), secs(b));
    for (x, y) in sa.iter().zip(sb.iter()) {
        if x != y {
            return format!("section{}", x.0);
        }
    }
    "sections".into()
}

/// C04: same scenario under several hash seeds must give identical bytes.
/// The outcome line C04 compares for one scenario under hash seed 0 (module histories: the first
/// encoding; component plans: the encoded component after the ComponentIterator walk).
pub fn c04_outcome(sc: &Scenario) -> String {
    let mut s0 = sc.clone();
    s0.hash_seed = 0;
    if s0.comp.is_some() {
        crate::c26::comp_outcome(&s0)
    } else {
        outcome_text(&run(&s0))
    }
}

/// The component share of C04: the same plan (pre-ops, skip map, walk with injections, encode) driven
/// through `ComponentIterator` under several hash seeds and, for replays of cross-process findings, in
/// fresh processes of the unhooked build. The twin side of the plan (per-module iterators) is executed
/// too but plays no part in the verdict.
fn judge_c04_comp(sc: &Scenario, seeds: usize) -> (Judged, RunResult) {
    let dummy = run(&Scenario { tail: vec![], ..Default::default() });
    let mut owned: Vec<Mismatch> = vec![];
    let o0 = c04_outcome(sc);
    let mut harness_error = o0.strip_prefix("harness ").map(|e| e.to_string());
    if harness_error.is_none() {
        for k in 1..seeds {
            let mut s = sc.clone();
            s.hash_seed = if k < 3 { k as u64 } else { crate::rng::mix(sc.hash_seed, k as u64) };
            let o = crate::c26::comp_outcome(&s);
            if o != o0 {
                owned.push(Mismatch::new(
                    "nondeterministic_bytes",
                    "component",
                    format!("hash seed {} gives a different encoded component than hash seed 0: {} vs {}", s.hash_seed, &o[..o.len().min(48)], &o0[..o0.len().min(48)]),
                ));
                break;
            }
        }
    }
    if owned.is_empty() && sc.xproc > 0 && harness_error.is_none() {
        match xproc_outcomes(sc, sc.xproc) {
            Err(e) => harness_error = Some(e),
            Ok(outs) => {
                if let Some((k, o)) = outs.iter().enumerate().find(|(_, o)| **o != o0) {
                    owned.push(Mismatch::new(
                        "nondeterministic_bytes",
                        "process",
                        format!("execution {k} in a fresh process of the unhooked build (std RandomState) differs from the hooked seed-0 component: {} vs {}", &o[..o.len().min(48)], &o0[..o0.len().min(48)]),
                    ));
                }
            }
        }
    }
    (Judged { owned, others: vec![], harness_error }, dummy)
}

pub fn judge_c04(sc: &Scenario, seeds: usize) -> (Judged, RunResult) {
    if sc.comp.is_some() {
        return judge_c04_comp(sc, seeds);
    }
    let mut s0 = sc.clone();
    s0.hash_seed = 0;
    let r0 = run(&s0);
    let mut owned: Vec<Mismatch> = vec![];
    let b0 = first_bytes(&r0).cloned();
    let p0 = panic_of(&r0).map(|p| p.sig());
    for k in 1..seeds {
        let mut s = sc.clone();
        s.hash_seed = if k < 3 { k as u64 } else { crate::rng::mix(sc.hash_seed, k as u64) };
        let r = run(&s);
        let b = first_bytes(&r).cloned();
        if b != b0 {
            let site = match (&b0, &b) {
                (Some(x), Some(y)) => diff_site(x, y),
                _ => "outcome".into(),
            };
            owned.push(Mismatch::new(
                "nondeterministic_bytes",
                &site,
                format!("hash seed {} gives different output than hash seed 0 (panic sigs {:?} vs {:?})", s.hash_seed, panic_of(&r).map(|p| p.sig()), p0),
            ));
            break;
        }
    }
    let mut harness_error = r0.parse_err.clone().map(|e| format!("library refused a validated base module: {e}"));
    if owned.is_empty() && sc.xproc > 0 && harness_error.is_none() {
        match xproc_outcomes(sc, sc.xproc) {
            Err(e) => harness_error = Some(e),
            Ok(outs) => {
                let mine = outcome_text(&r0);
                for (k, o) in outs.iter().enumerate() {
                    if *o != mine {
                        let site = match (hex_bytes(&mine), hex_bytes(o)) {
                            (Some(x), Some(y)) => diff_site(&x, &y),
                            _ => "outcome".into(),
                        };
                        owned.push(Mismatch::new(
                            "nondeterministic_bytes",
                            "process",
                            format!(
                                "execution {k} in a fresh process of the unhooked build (std RandomState) differs from the hooked seed-0 output at {site}: {} vs {}",
                                &o[..o.len().min(48)],
                                &mine[..mine.len().min(48)]
                            ),
                        ));
                        break;
                    }
                }
            }
        }
    }
    (Judged { owned, others: vec![], harness_error }, r0)
}

/// One line describing what a scenario produced: `bytes <hex>` / `panic <signature>` / `none`.
pub fn outcome_text(r: &RunResult) -> String {
    if let Some(b) = first_bytes(r) {
        let mut s = String::with_capacity(6 + 2 * b.len());
        s.push_str("bytes ");
        for x in b {
            s.push_str(&format!("{:02x}", x));
        }
        s
    } else if let Some(p) = panic_of(r) {
        format!("panic {}", p.sig())
    } else {
        "none".into()
    }
}

pub fn outcome_digest(r: &RunResult) -> u64 {
    crate::rng::hash_str(&outcome_text(r))
}

fn hex_bytes(s: &str) -> Option<Vec<u8>> {
    let h = s.strip_prefix("bytes ")?;
    (0..h.len() / 2).map(|i| u8::from_str_radix(&h[2 * i..2 * i + 2], 16).ok()).collect()
}

pub fn unhooked_bin() -> String {
    std::env::var("VERIF_UNHOOKED_BIN").ok().filter(|s| !s.is_empty()).unwrap_or_else(|| "/verif/target/unhooked/release/sim".into())
}

/// Runs the scenario in `n` fresh processes of the unhooked build (each of which executes it on
/// three threads, i.e. under three more sets of std hash keys) and returns every outcome line.
pub fn xproc_outcomes(sc: &Scenario, n: u32) -> Result<Vec<String>, String> {
    let bin = unhooked_bin();
    if !std::path::Path::new(&bin).exists() {
        return Err(format!("unhooked simulator binary {bin} is missing (./check --build builds it)"));
    }
    let mut s = sc.clone();
    s.xproc = 0;
    let path = format!("/verif/target/tmp/xp-{}-{:?}.json", std::process::id(), std::thread::current().id()).replace(['(', ')'], "");
    std::fs::write(&path, serde_json::to_string(&s).unwrap()).map_err(|e| format!("cannot write {path}: {e}"))?;
    let mut outs = vec![];
    for _ in 0..n {
        let o = std::process::Command::new(&bin).arg("c04-one").arg(&path).output().map_err(|e| format!("cannot spawn {bin}: {e}"))?;
        if !o.status.success() {
            let _ = std::fs::remove_file(&path);
            return Err(format!("unhooked c04-one exited with {:?}: {}", o.status.code(), String::from_utf8_lossy(&o.stderr)));
        }
        for l in String::from_utf8_lossy(&o.stdout).lines() {
            outs.push(l.to_string());
        }
    }
    let _ = std::fs::remove_file(&path);
    Ok(outs)
}

pub fn judge(id: &str, sc: &Scenario, hash_seeds: usize) -> (Judged, RunResult, Scenario) {
    match id {
        "C18" | "C19" | "C20" if sc.exec.is_none() => {
            // the structural share of these checks: probes inside a replaced construct (see gen_for)
            let r = run(sc);
            (judge_structural(id, sc, &r), r, sc.clone())
        }
        "C16" | "C17" | "C18" | "C19" | "C20" => {
            let mut st = crate::execcheck::ExecStats::default();
            let (j, r) = crate::execcheck::judge_exec(id, sc, &mut st);
            crate::execcheck::flush_stats(&st);
            (j, r, sc.clone())
        }
        "C04" => {
            let (j, r) = judge_c04(sc, hash_seeds);
            (j, r, sc.clone())
        }
        "C05" => {
            let r = run(sc);
            (judge_c05(sc, &r), r, sc.clone())
        }
        "C23" => {
            let (j, r) = crate::c23::judge_c23(sc);
            (j, r, sc.clone())
        }
        "C26" => {
            let (j, r) = crate::c26::judge_c26(sc);
            (j, r, sc.clone())
        }
        "C28" if sc.comp.is_some() => {
            // the component share of C28: custom sections of a component whose modules are instrumented
            let (j, r) = crate::c26::judge_c26(sc);
            (j, r, sc.clone())
        }
        "C25" => {
            let r = run(sc);
            (judge_c25(sc, &r), r, sc.clone())
        }
        "C13" => {
            // the dedup map is hash ordered: judge under several seeds, report the first failing
            let mut last = None;
            for k in 0..hash_seeds.max(1) {
                let mut s = sc.clone();
                s.hash_seed = if k == 0 { sc.hash_seed } else { crate::rng::mix(sc.hash_seed, k as u64) };
                let r = run(&s);
                let j = judge_structural(id, &s, &r);
                if !j.owned.is_empty() || j.harness_error.is_some() {
                    return (j, r, s);
                }
                last = Some((j, r, s));
            }
            last.unwrap()
        }
        _ => {
            let r = run(sc);
            (judge_structural(id, sc, &r), r, sc.clone())
        }
    }
}
