//! Seeded generation of base modules, code gadgets, client programs and schedules.
use crate::exec::{FailKind, Scenario, Tail};
use crate::ins::*;
use crate::model::*;
use crate::rng::Rng;
use crate::spec::*;

#[derive(Clone, Debug)]
pub struct Profile {
    pub name: &'static str,
    pub max_imp_funcs: usize,
    pub max_local_funcs: usize,
    pub min_local_funcs: usize,
    pub mixed_imports: bool,
    pub max_globals: usize,
    pub max_mems: usize,
    pub multi_memory: bool,
    pub atomics: bool,
    pub simd: bool,
    pub elems: bool,
    pub data: bool,
    pub exports: bool,
    pub start: bool,
    pub names: bool,
    pub customs: bool,
    pub dup_types: bool,
    pub gc_types: bool,
    pub control_flow: bool,
    /// (op kind, weight)
    pub ops: Vec<(&'static str, u32)>,
    pub modes: Vec<Mode>,
    pub apis: Vec<Api>,
    pub mean_ops: usize,
    pub max_clients: usize,
    pub tags: bool,
    /// allow deletes of still-referenced entities (C09 dangling population)
    pub dangling: bool,
    /// allow special modes / EmptyBlockAlt on non-applicable opcodes (C22)
    pub misapplied: bool,
    /// allow instrumentation strictly inside a construct that is (or later gets) replaced through
    /// block-alternate: it must disappear with the construct
    pub region_interior: bool,
    /// also place ONE block-entry / block-exit / semantic-after probe on the opener (or `else`) of a
    /// construct that carries a non-empty block-alternate: whether it survives is not stated, but it
    /// must not surface anywhere except next to the replacement (oracle: `replaced_opener_probe`)
    pub opener_special: bool,
    /// local functions without results sometimes have a body that is only the final `end`
    pub empty_bodies: bool,
    /// also request after-code / replacements on a function's final `end` (where only before-code is emitted)
    pub final_end_after: bool,
    /// also generate `clear_instr_at` calls that take earlier injections back
    pub clears: bool,
    /// add memories although the module is parsed with `enable_multi_memory == false` (the base then has
    /// at most one memory; the API does not refuse, and the output is a multi-memory module)
    pub add_mem_anyway: bool,
}

impl Profile {
    pub fn base(name: &'static str) -> Profile {
        Profile {
            name,
            max_imp_funcs: 4,
            max_local_funcs: 5,
            min_local_funcs: 0,
            mixed_imports: true,
            max_globals: 3,
            max_mems: 1,
            multi_memory: false,
            atomics: false,
            simd: false,
            elems: true,
            data: true,
            exports: true,
            start: true,
            names: false,
            customs: false,
            dup_types: false,
            gc_types: false,
            control_flow: true,
            ops: vec![],
            modes: vec![Mode::Before, Mode::After, Mode::Alternate, Mode::EmptyAlternate],
            apis: Api::MODULE.to_vec(),
            mean_ops: 4,
            max_clients: 3,
            tags: false,
            dangling: false,
            misapplied: false,
            region_interior: false,
            opener_special: false,
            empty_bodies: false,
            final_end_after: false,
            clears: false,
            add_mem_anyway: false,
        }
    }
}

pub const SIMPLE_MODES: [Mode; 4] = [Mode::Before, Mode::After, Mode::Alternate, Mode::EmptyAlternate];
pub const ALL_MODES: [Mode; 11] = [
    Mode::Before,
    Mode::After,
    Mode::Alternate,
    Mode::EmptyAlternate,
    Mode::SemanticAfter,
    Mode::BlockEntry,
    Mode::BlockExit,
    Mode::BlockAlt,
    Mode::EmptyBlockAlt,
    Mode::FuncEntry,
    Mode::FuncExit,
];

/// What generated code may refer to.
#[derive(Clone, Debug, Default)]
pub struct RefCtx {
    pub funcs: Vec<(u32, Vec<VT>, Vec<VT>)>,
    /// functions that may be the target of `ref.func` in code (declared outside code)
    pub declared: Vec<u32>,
    pub globals: Vec<(u32, VT, bool)>,
    pub mems: Vec<(u32, MemT)>,
    pub n_data: u32,
    pub data_count: bool,
    pub atomics: bool,
    pub simd: bool,
    pub tail_calls: bool,
}

pub struct CodeGen<'a> {
    pub rng: &'a mut Rng,
    pub ctx: &'a RefCtx,
    pub params: Vec<VT>,
    pub locals: Vec<VT>,
    pub results: Vec<VT>,
    pub control_flow: bool,
}

fn push_default(out: &mut Vec<Ins>, t: VT) {
    out.push(t.default_ins());
}

fn addr(out: &mut Vec<Ins>, m: &MemT, v: i64) {
    if m.memory64 {
        out.push(Ins::I64Const(v))
    } else {
        out.push(Ins::I32Const(v as i32))
    }
}

impl CodeGen<'_> {
    fn all_locals(&self) -> Vec<VT> {
        let mut v = self.params.clone();
        v.extend(self.locals.iter().copied());
        v
    }

    /// One stack-neutral gadget appended to `out`. `depth` = number of enclosing gadget blocks
    /// (all of empty type), `can_branch_out` = the function label has no results.
    pub fn gadget(&mut self, out: &mut Vec<Ins>, depth: u32, budget: &mut i32) {
        *budget -= 1;
        if self.rng.chance(1, 8) {
            out.push(Ins::Nop);
            return;
        }
        let r = self.rng.below(100);
        let ctx = self.ctx;
        match r {
            0..=17 if !ctx.funcs.is_empty() => {
                let (f, p, res) = self.rng.pick(&ctx.funcs).clone();
                for t in &p {
                    push_default(out, *t);
                }
                out.push(Ins::Call(f));
                for _ in &res {
                    out.push(Ins::Drop);
                }
            }
            18..=21 if ctx.tail_calls && !ctx.funcs.is_empty() => {
                let cands: Vec<_> = ctx.funcs.iter().filter(|(_, _, r)| *r == self.results).collect();
                if let Some((f, p, _)) = self.rng.pick_opt(&cands) {
                    out.push(Ins::I32Const(0));
                    out.push(Ins::If(BT::Empty));
                    for t in p {
                        push_default(out, *t);
                    }
                    out.push(Ins::ReturnCall(*f));
                    out.push(Ins::End);
                }
            }
            22..=27 if !ctx.declared.is_empty() => {
                let f = *self.rng.pick(&ctx.declared);
                out.push(Ins::RefFunc(f));
                out.push(Ins::Drop);
            }
            28..=39 if !ctx.globals.is_empty() => {
                let (g, t, m) = *self.rng.pick(&ctx.globals);
                if ctx.atomics && matches!(t, VT::I32 | VT::I64) && self.rng.chance(1, 3) {
                    // shared-everything-threads atomic global accesses (legal on unshared globals)
                    let acq = self.rng.chance(1, 2);
                    let k = if m { self.rng.below(9) as u8 } else { 0 };
                    match k {
                        0 => {}
                        8 => {
                            push_default(out, t);
                            push_default(out, t);
                        }
                        _ => push_default(out, t),
                    }
                    out.push(Ins::GlobalAtomic(k, acq, g));
                    if k != 1 {
                        out.push(Ins::Drop);
                    }
                } else if m && self.rng.chance(1, 2) {
                    push_default(out, t);
                    out.push(Ins::GlobalSet(g));
                } else {
                    out.push(Ins::GlobalGet(g));
                    out.push(Ins::Drop);
                }
            }
            40..=64 if !ctx.mems.is_empty() => self.mem_gadget(out),
            65..=74 => {
                let l = self.all_locals();
                if !l.is_empty() {
                    let i = self.rng.below(l.len());
                    match self.rng.below(3) {
                        0 => {
                            out.push(Ins::LocalGet(i as u32));
                            out.push(Ins::Drop);
                        }
                        1 => {
                            push_default(out, l[i]);
                            out.push(Ins::LocalSet(i as u32));
                        }
                        _ => {
                            push_default(out, l[i]);
                            out.push(Ins::LocalTee(i as u32));
                            out.push(Ins::Drop);
                        }
                    }
                } else {
                    out.push(Ins::Nop);
                }
            }
            75..=89 if self.control_flow && *budget > 0 && depth < 4 => {
                match self.rng.below(7) {
                    6 if depth > 0 || self.results.is_empty() => {
                        // a try_table frame: not a construct the special modes apply to, but it counts
                        // as a control frame for every branch depth inside it
                        out.push(Ins::TryTable(BT::Empty, vec![(None, 0)]));
                        self.seq(out, depth + 1, budget);
                        out.push(Ins::End);
                    }
                    0 | 1 => {
                        out.push(Ins::Block(BT::Empty));
                        self.seq(out, depth + 1, budget);
                        out.push(Ins::End);
                    }
                    2 => {
                        out.push(Ins::Loop(BT::Empty));
                        self.seq(out, depth + 1, budget);
                        out.push(Ins::End);
                    }
                    3 => {
                        out.push(Ins::I32Const(self.rng.below(2) as i32));
                        out.push(Ins::If(BT::Empty));
                        self.seq(out, depth + 1, budget);
                        out.push(Ins::End);
                    }
                    _ => {
                        out.push(Ins::I32Const(self.rng.below(2) as i32));
                        out.push(Ins::If(BT::Empty));
                        self.seq(out, depth + 1, budget);
                        out.push(Ins::Else);
                        self.seq(out, depth + 1, budget);
                        out.push(Ins::End);
                    }
                }
            }
            90..=94 if depth > 0 => {
                // branches stay inside gadget blocks (never target a loop as a back-edge forever:
                // structural profiles never execute this code, so loops are harmless)
                let d = self.rng.below(depth as usize) as u32;
                match self.rng.below(3) {
                    0 => {
                        out.push(Ins::I32Const(0));
                        out.push(Ins::BrIf(d));
                    }
                    1 => {
                        out.push(Ins::Block(BT::Empty));
                        out.push(Ins::Br(d + 1));
                        out.push(Ins::End);
                    }
                    _ => {
                        // targets often repeat (several table entries landing on one label)
                        let n = self.rng.below(4);
                        let mut t: Vec<u32> = vec![];
                        for k in 0..n {
                            let v = if k > 0 && self.rng.chance(1, 2) { t[0] } else { self.rng.below(depth as usize + 1) as u32 };
                            t.push(v);
                        }
                        out.push(Ins::Block(BT::Empty));
                        out.push(Ins::I32Const(self.rng.below(4) as i32));
                        out.push(Ins::BrTable(t, d + 1));
                        out.push(Ins::End);
                    }
                }
            }
            _ => {
                let a = self.rng.below(1000) as i32;
                out.push(Ins::I32Const(a));
                out.push(Ins::I32Const(7));
                out.push(Ins::S(*self.rng.pick(&[Simple::I32Add, Simple::I32Sub, Simple::I32Mul, Simple::I32Xor])));
                out.push(Ins::Drop);
            }
        }
    }

    pub fn mem_gadget(&mut self, out: &mut Vec<Ins>) {
        let ctx = self.ctx;
        let (m, mt) = *self.rng.pick(&ctx.mems);
        let r = self.rng.below(100);
        let off = self.rng.below(64) as u64;
        match r {
            0..=54 => {
                // memarg family
                let pool: Vec<MemOp> = MemOp::ALL
                    .iter()
                    .copied()
                    .filter(|op| {
                        let (shape, _, atomic) = op.info();
                        let is_simd = matches!(shape, MemShape::Load(VT::V128) | MemShape::Store(VT::V128));
                        (!atomic || ctx.atomics) && (!is_simd || ctx.simd)
                    })
                    .collect();
                let op = *self.rng.pick(&pool);
                let (shape, al, atomic) = op.info();
                let align = if atomic { al } else { self.rng.below(al as usize + 1) as u8 };
                let ma = MA { mem: m, offset: off, align };
                addr(out, &mt, 0);
                match shape {
                    MemShape::Load(_) => {
                        out.push(Ins::Mem(op, ma));
                        out.push(Ins::Drop);
                    }
                    MemShape::Store(t) => {
                        push_default(out, t);
                        out.push(Ins::Mem(op, ma));
                    }
                    MemShape::Rmw(t) => {
                        push_default(out, t);
                        out.push(Ins::Mem(op, ma));
                        out.push(Ins::Drop);
                    }
                    MemShape::Cmpxchg(t) => {
                        push_default(out, t);
                        push_default(out, t);
                        out.push(Ins::Mem(op, ma));
                        out.push(Ins::Drop);
                    }
                    MemShape::Notify => {
                        out.push(Ins::I32Const(0));
                        out.push(Ins::Mem(op, ma));
                        out.push(Ins::Drop);
                    }
                    MemShape::Wait32 => {
                        out.push(Ins::I32Const(0));
                        out.push(Ins::I64Const(0));
                        out.push(Ins::Mem(op, ma));
                        out.push(Ins::Drop);
                    }
                    MemShape::Wait64 => {
                        out.push(Ins::I64Const(0));
                        out.push(Ins::I64Const(0));
                        out.push(Ins::Mem(op, ma));
                        out.push(Ins::Drop);
                    }
                }
            }
            55..=64 if ctx.simd => {
                let op = *self.rng.pick(LaneOp::ALL);
                let (store, al, lanes) = op.info();
                let ma = MA {
                    mem: m,
                    offset: off,
                    align: self.rng.below(al as usize + 1) as u8,
                };
                addr(out, &mt, 0);
                out.push(Ins::V128Const(0));
                out.push(Ins::Lane(op, ma, self.rng.below(lanes as usize) as u8));
                if !store {
                    out.push(Ins::Drop);
                }
            }
            65..=72 => {
                out.push(Ins::MemorySize(m));
                out.push(Ins::Drop);
            }
            73..=79 => {
                addr(out, &mt, 0);
                out.push(Ins::MemoryGrow(m));
                out.push(Ins::Drop);
            }
            80..=86 => {
                addr(out, &mt, 0);
                out.push(Ins::I32Const(0));
                addr(out, &mt, 0);
                out.push(Ins::MemoryFill(m));
            }
            87..=94 => {
                let (m2, mt2) = *self.rng.pick(&ctx.mems);
                // copy dst=m src=m2
                addr(out, &mt, 0);
                addr(out, &mt2, 0);
                if mt.memory64 && mt2.memory64 {
                    out.push(Ins::I64Const(0))
                } else {
                    out.push(Ins::I32Const(0))
                }
                out.push(Ins::MemoryCopy { dst: m, src: m2 });
            }
            _ if ctx.n_data > 0 && ctx.data_count => {
                addr(out, &mt, 0);
                out.push(Ins::I32Const(0));
                out.push(Ins::I32Const(0));
                out.push(Ins::MemoryInit {
                    data: self.rng.below(ctx.n_data as usize) as u32,
                    mem: m,
                });
            }
            _ => {
                out.push(Ins::MemorySize(m));
                out.push(Ins::Drop);
            }
        }
    }

    pub fn seq(&mut self, out: &mut Vec<Ins>, depth: u32, budget: &mut i32) {
        let n = self.rng.range(0, 3);
        for _ in 0..n {
            if *budget <= 0 {
                break;
            }
            self.gadget(out, depth, budget);
        }
    }

    /// full body for a function (without final End): magic prefix, gadgets, default results
    pub fn body(&mut self, magic: i64, size: usize) -> Vec<Ins> {
        let mut out = vec![];
        let mut budget = size as i32;
        let mut boundaries = vec![0usize];
        while budget > 0 {
            self.gadget(&mut out, 0, &mut budget);
            boundaries.push(out.len());
        }
        // the fingerprint pair usually opens the body, but not always: a function may as well
        // start with a block or any other instruction
        let at = if self.rng.chance(3, 5) { 0 } else { *self.rng.pick(&boundaries) };
        out.insert(at, Ins::Drop);
        out.insert(at, Ins::I64Const(magic));
        for t in self.results.clone() {
            push_default(&mut out, t);
        }
        out
    }

    /// a stack-neutral probe body: `i32.const magic; drop` followed by 0..2 gadgets (no control flow
    /// that could interact with the surrounding code; branches excluded)
    pub fn probe(&mut self, magic: i32) -> Vec<Ins> {
        let mut out = vec![Ins::I32Const(magic), Ins::Drop];
        let n = self.rng.below(3);
        let save = self.control_flow;
        self.control_flow = false;
        let mut b = 8;
        for _ in 0..n {
            self.gadget(&mut out, 0, &mut b);
        }
        self.control_flow = save;
        out
    }
}

pub const SIG_POOL: &[(&[VT], &[VT])] = &[
    (&[], &[]),
    (&[VT::I32], &[]),
    (&[], &[VT::I32]),
    (&[VT::I32, VT::I64], &[VT::I32]),
    (&[VT::F32], &[VT::F64]),
    (&[VT::I64], &[VT::I64, VT::I32]),
    (&[VT::FuncRef, VT::I32], &[]),
    (&[VT::V128], &[VT::V128]),
    (&[VT::ExternRef], &[VT::ExternRef]),
];

pub struct Names {
    n: u32,
}
impl Names {
    pub fn new() -> Names {
        Names { n: 0 }
    }
    pub fn next(&mut self, p: &str) -> String {
        self.n += 1;
        format!("{p}{}", self.n)
    }
}

pub struct GenState {
    pub names: Names,
    pub next_func_magic: i64,
    pub next_probe_magic: i32,
    pub next_gconst: u32,
    pub next_mem_min: u64,
    pub used_gother: Vec<(VT, bool, String)>,
}
impl GenState {
    pub fn new() -> Self {
        GenState {
            names: Names::new(),
            next_func_magic: FUNC_MAGIC_BASE,
            next_probe_magic: PROBE_MAGIC_BASE,
            next_gconst: 1000,
            next_mem_min: 1,
            used_gother: vec![],
        }
    }
    pub fn func_magic(&mut self) -> i64 {
        self.next_func_magic += 1;
        self.next_func_magic
    }
    pub fn probe_magic(&mut self) -> i32 {
        self.next_probe_magic += 1;
        self.next_probe_magic
    }
    pub fn mem_min(&mut self) -> u64 {
        self.next_mem_min += 1;
        self.next_mem_min
    }
    /// unique constant initialiser for a global of numeric type
    pub fn gconst(&mut self, rng: &mut Rng, ty: VT) -> ConstE {
        self.next_gconst += 1;
        let k = self.next_gconst;
        match ty {
            VT::I32 => ConstE::I32(k as i32 * if rng.chance(1, 4) { -1 } else { 1 }),
            VT::I64 => ConstE::I64(((k as i64) << 20) | 0x5),
            VT::F32 => {
                // includes NaN payloads and negative zero patterns: bits are what must be preserved
                let hi = *rng.pick(&[0x7fc0_0000u32, 0xffc0_0000, 0x7f80_0000, 0x8000_0000, 0x3f80_0000, 0x7fa0_0000]);
                ConstE::F32(hi | k)
            }
            VT::F64 => {
                let hi = *rng.pick(&[
                    0x7ff8_0000_0000_0000u64,
                    0xfff8_0000_0000_0000,
                    0x8000_0000_0000_0000,
                    0x3ff0_0000_0000_0000,
                    0x7ff4_0000_0000_0000,
                ]);
                ConstE::F64(hi | k as u64)
            }
            VT::V128 => ConstE::V128(((k as u128) << 64) | 0xABCD_0000_0000_0000_0000_0000_1234u128 | ((k as u128) << 4)),
            VT::FuncRef => ConstE::RefNull(true),
            VT::ExternRef => ConstE::RefNull(false),
            VT::AnyRef => panic!("harness: no constant of type anyref"),
        }
    }
}

pub fn tag_opt(rng: &mut Rng, tags: bool) -> Option<Vec<u8>> {
    if tags && rng.chance(2, 3) {
        let n = rng.range(0, 4);
        Some(rng.bytes(n))
    } else {
        None
    }
}

/// Generate a valid base module for a profile.
pub fn gen_base(rng: &mut Rng, p: &Profile, st: &mut GenState) -> ModuleSpec {
    let mut m = ModuleSpec::default();
    // ---- types
    let n_sigs = rng.range(2, 5);
    let mut sig_idx: Vec<usize> = (0..SIG_POOL.len()).collect();
    rng.shuffle(&mut sig_idx);
    let mut sigs: Vec<usize> = sig_idx.into_iter().take(n_sigs).collect();
    if !sigs.contains(&0) && rng.chance(3, 4) {
        sigs[0] = 0; // keep ()->() available for start functions most of the time
    }
    if !p.simd {
        sigs.retain(|s| *s != 7);
    }
    if sigs.is_empty() {
        sigs.push(0);
    }
    for s in &sigs {
        let (a, b) = SIG_POOL[*s];
        m.types.push(RecGroupSpec {
            explicit: false,
            types: vec![SubT::func(a, b)],
        });
        if p.dup_types && rng.chance(1, 2) {
            // structurally identical duplicates
            for _ in 0..rng.range(1, 2) {
                m.types.push(RecGroupSpec {
                    explicit: false,
                    types: vec![SubT::func(a, b)],
                });
            }
        }
    }
    if p.gc_types {
        let n = rng.range(0, 3);
        for _ in 0..n {
            let explicit = rng.chance(1, 2);
            let k = if explicit { rng.range(1, 3) } else { 1 };
            let base_idx = m.flat_types().len() as u32;
            let mut types = vec![];
            for j in 0..k {
                let comp = match rng.below(3) {
                    0 => Comp::Func(vec![*rng.pick(&VT::NUMS)], vec![]),
                    1 => Comp::Struct(
                        (0..rng.range(0, 3))
                            .map(|_| (gen_st(rng), rng.chance(1, 2)))
                            .collect(),
                    ),
                    _ => Comp::Array(gen_st(rng), rng.chance(1, 2)),
                };
                // optional supertype: an earlier non-final type of the same shape in this group
                let mut supertype = None;
                let is_final = rng.chance(2, 3);
                if j > 0 && rng.chance(1, 3) {
                    let prev: &SubT = &types[j - 1];
                    if !prev.is_final && prev.comp == comp {
                        supertype = Some(base_idx + j as u32 - 1);
                    }
                }
                types.push(SubT {
                    is_final,
                    supertype,
                    shared: false,
                    comp,
                });
            }
            m.types.push(RecGroupSpec { explicit, types });
        }
        if p.dup_types && rng.chance(1, 2) {
            let flat: Vec<SubT> = m.flat_types().into_iter().cloned().collect();
            let cands: Vec<&SubT> = flat.iter().filter(|t| t.supertype.is_none()).collect();
            if let Some(t) = rng.pick_opt(&cands) {
                m.types.push(RecGroupSpec {
                    explicit: false,
                    types: vec![(*t).clone()],
                });
            }
        }
    }
    let func_types: Vec<u32> = {
        let flat = m.flat_types();
        (0..flat.len() as u32)
            .filter(|i| matches!(flat[*i as usize].comp, Comp::Func(..)) && flat[*i as usize].supertype.is_none() && flat[*i as usize].is_final)
            .collect()
    };
    // ---- imports
    let n_if = rng.range(0, p.max_imp_funcs);
    let mut kinds: Vec<ImpKind> = vec![];
    for _ in 0..n_if {
        kinds.push(ImpKind::Func(*rng.pick(&func_types)));
    }
    if p.mixed_imports {
        if p.max_globals > 0 {
            for _ in 0..rng.range(0, 2) {
                kinds.push(ImpKind::Global {
                    ty: *rng.pick(&[VT::I32, VT::I64, VT::F32, VT::F64]),
                    mutable: rng.chance(1, 3),
                });
            }
        }
        if p.max_mems > 0 && rng.chance(1, 2) {
            let n = if p.multi_memory { rng.range(1, 2) } else { 1 };
            for _ in 0..n {
                kinds.push(ImpKind::Memory(MemT {
                    min: st.mem_min(),
                    max: if rng.chance(1, 2) { Some(100 + rng.below(10) as u64) } else { None },
                    shared: false,
                    memory64: false,
                    page1: false,
                }));
            }
        }
        if rng.chance(1, 4) {
            kinds.push(ImpKind::Table(TableT {
                min: 1,
                max: None,
                funcref: true,
            }));
        }
        if rng.chance(1, 6) {
            if let Some(t) = func_types.iter().find(|t| m.func_sig(**t).map_or(false, |(_, r)| r.is_empty())) {
                kinds.push(ImpKind::Tag(*t));
            }
        }
    }
    rng.shuffle(&mut kinds);
    for k in kinds {
        m.imports.push(ImportSpec {
            module: "env".into(),
            name: st.names.next("i"),
            kind: k,
        });
    }
    // ---- memories
    let imp_mems = m.num_imp_mems() as usize;
    let want_mems = if p.max_mems == 0 {
        0
    } else if p.multi_memory {
        rng.range(1, p.max_mems)
    } else {
        1
    };
    for _ in imp_mems..want_mems.max(imp_mems) {
        if m.num_mems() as usize >= want_mems {
            break;
        }
        m.memories.push(MemT {
            min: st.mem_min(),
            max: if rng.chance(1, 2) { Some(200 + rng.below(10) as u64) } else { None },
            shared: false,
            memory64: p.multi_memory && rng.chance(1, 5),
            page1: p.multi_memory && rng.chance(1, 6),
        });
    }
    if p.max_mems > 0 && !p.multi_memory && m.num_mems() > 1 {
        // single-memory profile: keep exactly one memory
        m.memories.clear();
    }
    // ---- tables
    if p.elems && rng.chance(2, 3) && m.num_imp_tables() == 0 {
        m.tables.push(TableSpec {
            ty: TableT {
                min: 8,
                max: Some(16),
                funcref: true,
            },
            init: None,
        });
    }
    // ---- function signatures
    let n_lf = rng.range(p.min_local_funcs, p.max_local_funcs);
    let lf_types: Vec<u32> = (0..n_lf).map(|_| *rng.pick(&func_types)).collect();
    let n_imp_f = m.num_imp_funcs();
    // ---- globals (local)
    let n_g = rng.range(0, p.max_globals);
    let imm_imp_globals: Vec<(u32, VT)> = {
        let mut v = vec![];
        let mut k = 0;
        for i in &m.imports {
            if let ImpKind::Global { ty, mutable } = i.kind {
                if !mutable {
                    v.push((k, ty));
                }
                k += 1;
            }
        }
        v
    };
    let total_funcs = n_imp_f + n_lf as u32;
    // a table initialiser naming a function (function-references proposal)
    if total_funcs > 0 && rng.chance(1, 3) {
        if let Some(t) = m.tables.first_mut() {
            t.init = Some(ConstE::RefFunc(rng.below(total_funcs as usize) as u32));
        }
    }
    let mut declared: Vec<u32> = vec![];
    for _ in 0..n_g {
        let mutable = rng.chance(1, 2);
        let r = rng.below(10);
        let (ty, init) = if r < 2 && !imm_imp_globals.is_empty() {
            let (g, ty) = *rng.pick(&imm_imp_globals);
            if st.used_gother.contains(&(ty, mutable, "global.get".into())) {
                let ty = *rng.pick(&VT::NUMS);
                (ty, st.gconst(rng, ty))
            } else {
                st.used_gother.push((ty, mutable, "global.get".into()));
                (ty, ConstE::GlobalGet(g))
            }
        } else if r < 3 && total_funcs > 0 && !st.used_gother.contains(&(VT::FuncRef, mutable, "ref.func".into())) {
            st.used_gother.push((VT::FuncRef, mutable, "ref.func".into()));
            let f = rng.below(total_funcs as usize) as u32;
            // (a global initialiser declares f, but the global can be deleted: not relied upon)
            (VT::FuncRef, ConstE::RefFunc(f))
        } else {
            let mut pool = vec![VT::I32, VT::I64, VT::F32, VT::F64];
            if p.simd {
                pool.push(VT::V128);
            }
            let ty = *rng.pick(&pool);
            (ty, st.gconst(rng, ty))
        };
        m.globals.push(GlobalSpec { ty, mutable, init });
    }
    // a GC aggregate: an immutable anyref global whose initialiser holds SEVERAL references
    // (`global.get a; global.get b | ref... ; struct.new $pair`)
    {
        let i32_imps: Vec<u32> = imm_imp_globals.iter().filter(|(_, t)| *t == VT::I32).map(|(g, _)| *g).collect();
        if p.gc_types && !i32_imps.is_empty() && rng.chance(1, 2) && !st.used_gother.contains(&(VT::AnyRef, false, "struct.new".into())) {
            st.used_gother.push((VT::AnyRef, false, "struct.new".into()));
            let pair = SubT {
                is_final: true,
                supertype: None,
                shared: false,
                comp: Comp::Struct(vec![(ST::Val(VT::I32), false), (ST::Val(VT::I32), false)]),
            };
            let t = m.flat_types().len() as u32;
            m.types.push(RecGroupSpec { explicit: false, types: vec![pair] });
            let a = *rng.pick(&i32_imps);
            let second = if rng.chance(2, 3) { ConstE::GlobalGet(*rng.pick(&i32_imps)) } else { ConstE::I32(rng.below(50) as i32) };
            m.globals.push(GlobalSpec { ty: VT::AnyRef, mutable: false, init: ConstE::StructNew(t, vec![ConstE::GlobalGet(a), second]) });
        }
    }
    // ---- exports / start / elems decided before bodies so `declared` is known
    if p.exports {
        for f in 0..total_funcs {
            if rng.chance(1, 3) {
                m.exports.push(ExportSpec {
                    name: st.names.next("ef"),
                    kind: ExtKind::Func,
                    index: f,
                });
                // (an export declares f, but exports can be deleted: not relied upon)
            }
        }
        for g in 0..m.num_globals() {
            if rng.chance(1, 4) {
                // exporting mutable globals is fine
                m.exports.push(ExportSpec {
                    name: st.names.next("eg"),
                    kind: ExtKind::Global,
                    index: g,
                });
            }
        }
        for mm in 0..m.num_mems() {
            if rng.chance(1, 3) {
                m.exports.push(ExportSpec {
                    name: st.names.next("em"),
                    kind: ExtKind::Memory,
                    index: mm,
                });
            }
        }
    }
    let has_table = !m.tables.is_empty() || m.num_imp_tables() > 0;
    if p.elems && total_funcs > 0 {
        let n = rng.range(0, 3);
        for _ in 0..n {
            let k = rng.range(1, 3);
            let fs: Vec<u32> = (0..k).map(|_| rng.below(total_funcs as usize) as u32).collect();
            let mode = match rng.below(3) {
                0 if has_table => ElemMode::Active {
                    table: None,
                    offset: if !imm_imp_globals.is_empty() && rng.chance(1, 3) {
                        match imm_imp_globals.iter().find(|(_, t)| *t == VT::I32) {
                            Some((g, _)) => ConstE::GlobalGet(*g),
                            None => ConstE::I32(rng.below(4) as i32),
                        }
                    } else {
                        ConstE::I32(rng.below(4) as i32)
                    },
                },
                1 => ElemMode::Passive,
                _ => ElemMode::Declared,
            };
            let mut ty = None;
            let items = if rng.chance(2, 5) {
                let mut fs = fs;
                if rng.chance(1, 2) {
                    // a segment of concrete typed function references: every item has the type of the first
                    // (bodies do not exist yet: the type of a local function comes from the planned list)
                    let type_of = |f: u32| -> Option<u32> {
                        if f < n_imp_f {
                            m.func_type_of(f)
                        } else {
                            lf_types.get((f - n_imp_f) as usize).copied()
                        }
                    };
                    if let Some(t) = type_of(fs[0]) {
                        fs.retain(|f| type_of(*f) == Some(t));
                        ty = Some((t, rng.chance(1, 2)));
                    }
                }
                ElemItems::Exprs(fs.iter().map(|f| ConstE::RefFunc(*f)).collect())
            } else {
                ElemItems::Funcs(fs)
            };
            let mut mode = mode;
            if let (Some(_), ElemMode::Active { table, .. }) = (&ty, &mut mode) {
                // a typed active segment is always written with an explicit table index
                *table = Some(0);
            }
            match &items {
                ElemItems::Funcs(v) => declared.extend(v.iter().copied()),
                ElemItems::Exprs(v) => declared.extend(v.iter().filter_map(|c| if let ConstE::RefFunc(f) = c { Some(*f) } else { None })),
            }
            m.elems.push(ElemSpec { mode, items, ty });
        }
        // declarative segment so that ref.func in code validates
        if rng.chance(2, 3) {
            let k = rng.range(1, 3);
            let fs: Vec<u32> = (0..k).map(|_| rng.below(total_funcs as usize) as u32).collect();
            declared.extend(fs.iter().copied());
            m.elems.push(ElemSpec {
                mode: ElemMode::Declared,
                items: ElemItems::Funcs(fs),
                ty: None,
            });
        }
    }
    if p.start && rng.chance(1, 3) {
        let cands: Vec<u32> = (0..total_funcs)
            .filter(|f| {
                let t = if *f < n_imp_f {
                    m.func_type_of(*f).unwrap()
                } else {
                    lf_types[(*f - n_imp_f) as usize]
                };
                m.func_sig(t) == Some((vec![], vec![]))
            })
            .collect();
        if let Some(f) = rng.pick_opt(&cands) {
            m.start = Some(*f);
        }
    }
    // ---- data
    if p.data && m.num_mems() > 0 {
        let n = rng.range(0, 3);
        for _ in 0..n {
            let len = rng.range(1, 6);
            let bytes = rng.bytes(len);
            let mode = if rng.chance(1, 3) {
                DataMode::Passive
            } else {
                let mem = rng.below(m.num_mems() as usize) as u32;
                let mt = m.mem_type_of(mem).unwrap();
                let offset = if mt.memory64 {
                    ConstE::I64(rng.below(100) as i64)
                } else if rng.chance(1, 3) {
                    match imm_imp_globals.iter().find(|(_, t)| *t == VT::I32) {
                        Some((g, _)) => ConstE::GlobalGet(*g),
                        None => ConstE::I32(rng.below(100) as i32),
                    }
                } else {
                    ConstE::I32(rng.below(100) as i32)
                };
                DataMode::Active { mem, offset }
            };
            m.data.push(DataSpec { mode, bytes });
        }
        m.data_count = !m.data.is_empty() && rng.chance(2, 3);
    }
    // ---- bodies
    declared.sort();
    declared.dedup();
    let mut ctx = RefCtx {
        funcs: vec![],
        declared,
        globals: (0..m.num_globals()).map(|g| {
            let (t, mu, _) = m.global_type_of(g).unwrap();
            (g, t, mu)
        }).collect(),
        mems: (0..m.num_mems()).map(|i| (i, m.mem_type_of(i).unwrap())).collect(),
        n_data: m.data.len() as u32,
        data_count: m.data_count,
        atomics: p.atomics,
        simd: p.simd,
        tail_calls: true,
    };
    for f in 0..total_funcs {
        let t = if f < n_imp_f {
            m.func_type_of(f).unwrap()
        } else {
            lf_types[(f - n_imp_f) as usize]
        };
        let (a, b) = m.func_sig(t).unwrap();
        ctx.funcs.push((f, a, b));
    }
    if !p.multi_memory {
        // without the multi-memory flag memory.size/grow on memory 0 only; there is one memory anyway
    }
    for t in lf_types.iter() {
        let (params, results) = m.func_sig(*t).unwrap();
        let mut locals: Vec<(u32, VT)> = vec![];
        for _ in 0..rng.range(0, 3) {
            let mut pool = vec![VT::I32, VT::I64, VT::F32, VT::F64, VT::FuncRef, VT::ExternRef];
            if p.simd {
                pool.push(VT::V128);
            }
            locals.push((rng.range(1, 2) as u32, *rng.pick(&pool)));
        }
        let exp: Vec<VT> = locals.iter().flat_map(|(n, t)| std::iter::repeat(*t).take(*n as usize)).collect();
        let magic = st.func_magic();
        if p.empty_bodies && results.is_empty() && rng.chance(1, 5) {
            m.funcs.push(FuncSpec { ty: *t, locals, body: vec![Ins::End] });
            continue;
        }
        let size = rng.range(1, 8);
        let mut cg = CodeGen {
            rng,
            ctx: &ctx,
            params: params.clone(),
            locals: exp,
            results: results.clone(),
            control_flow: p.control_flow,
        };
        let mut body = cg.body(magic, size);
        body.push(Ins::End);
        m.funcs.push(FuncSpec { ty: *t, locals, body });
    }
    // ---- names
    if p.names {
        if rng.chance(1, 2) {
            m.names.module = Some("base_module".into());
        }
        for f in 0..total_funcs {
            if rng.chance(2, 3) {
                m.names.funcs.push((f, st.names.next("fn")));
            }
        }
        for g in 0..m.num_globals() {
            if rng.chance(2, 3) {
                m.names.globals.push((g, st.names.next("gn")));
            }
        }
        for (k, f) in m.funcs.iter().enumerate() {
            let nl = m.func_sig(f.ty).unwrap().0.len() + f.locals.iter().map(|(n, _)| *n as usize).sum::<usize>();
            let mut v = vec![];
            for l in 0..nl {
                if rng.chance(1, 2) {
                    v.push((l as u32, st.names.next("ln")));
                }
            }
            if !v.is_empty() {
                m.names.locals.push((n_imp_f + k as u32, v));
            }
        }
        for mm in 0..m.num_mems() {
            if rng.chance(1, 2) {
                m.names.memories.push((mm, st.names.next("mn")));
            }
        }
    }
    // ---- customs
    if p.customs {
        let n = rng.range(0, 5);
        for _ in 0..n {
            let (name, data) = custom_name_and_data(rng, st);
            m.customs.push(CustomSpec {
                name,
                data,
                place: rng.below(14) as u8,
            });
        }
        m.customs.sort_by_key(|c| c.place);
    }
    m
}

/// Names include the ones wasmparser recognises as "known" custom sections (they take different
/// paths in the parser); contents are arbitrary except for `producers`, which the library insists
/// on being well-formed.
pub fn custom_name_and_data(rng: &mut Rng, st: &mut GenState) -> (String, Vec<u8>) {
    let len = rng.range(0, 8);
    let data = rng.bytes(len);
    match rng.below(16) {
        0 => (String::new(), data),
        1 => ("dup".to_string(), data),
        2 => ("producers-ish".to_string(), data),
        3 => {
            // zero fields, or one field "language" with one (name, version) pair
            if rng.chance(1, 2) {
                ("producers".to_string(), vec![0])
            } else {
                let mut d = vec![1u8, 8];
                d.extend_from_slice(b"language");
                d.extend_from_slice(&[1, 1, b'R', 1, b'1']);
                ("producers".to_string(), d)
            }
        }
        4 => ("component-name".to_string(), data),
        5 => ("linking".to_string(), data),
        6 => ("dylink.0".to_string(), data),
        7 => ("reloc.CODE".to_string(), data),
        8 => ("target_features".to_string(), data),
        9 => (rng.pick(&["core", "coremodules", "coreinstances", "corestack"]).to_string(), data),
        10 => ("metadata.code.branch_hint".to_string(), data),
        _ => (st.names.next("cs"), data),
    }
}

fn gen_st(rng: &mut Rng) -> ST {
    match rng.below(6) {
        0 => ST::I8,
        1 => ST::I16,
        _ => ST::Val(*rng.pick(&[VT::I32, VT::I64, VT::F32, VT::F64, VT::FuncRef])),
    }
}

/// Reference context derived from the *current model state* (what a client may refer to)
pub fn ctx_of_model(m: &Model, p: &Profile) -> RefCtx {
    let mut ctx = RefCtx {
        atomics: p.atomics,
        simd: p.simd,
        tail_calls: true,
        n_data: m.data.len() as u32,
        data_count: m.base.data_count,
        ..Default::default()
    };
    for f in m.alive_funcs() {
        if let Some((a, b)) = m.func_sig(f) {
            ctx.funcs.push((f, a, b));
        }
    }
    // declared: alive functions exported / in elems / in global inits
    let mut d = vec![];
    for e in &m.elems {
        match &e.items {
            ElemItems::Funcs(v) => d.extend(v.iter().copied()),
            ElemItems::Exprs(v) => {
                for c in v {
                    if let ConstE::RefFunc(f) = c {
                        d.push(*f)
                    }
                }
            }
        }
    }
    d.retain(|f| m.funcs.get(*f as usize).map_or(false, |x| !x.deleted));
    d.sort();
    d.dedup();
    ctx.declared = d;
    for g in m.alive_globals() {
        let (t, mu, _) = m.global_ty(g).unwrap();
        ctx.globals.push((g, t, mu));
    }
    for i in m.alive_mems() {
        ctx.mems.push((i, m.mems[i as usize].ty));
    }
    if !p.multi_memory {
        ctx.mems.retain(|(i, _)| *i == 0);
    }
    ctx
}

/// Instructions of a model function that may carry a given mode (generator-side legality)
fn site_candidates(l: &MLocal, mode: Mode, misapplied: bool, final_end_too: bool) -> Vec<u32> {
    let n = l.body.len();
    let mut v = vec![];
    for (i, mi) in l.body.iter().enumerate() {
        let last = i + 1 == n;
        // never touch the fingerprint prefix of the function
        let is_magic = matches!(mi.ins, Ins::I64Const(x) if x >= FUNC_MAGIC_BASE && x < FUNC_MAGIC_BASE + 0x1_0000_0000)
            || (i > 0 && matches!(l.body[i - 1].ins, Ins::I64Const(x) if x >= FUNC_MAGIC_BASE && x < FUNC_MAGIC_BASE + 0x1_0000_0000));
        if is_magic && !matches!(mode, Mode::FuncEntry | Mode::FuncExit) {
            continue; // the fingerprint pair stays contiguous
        }
        let ok = match mode {
            Mode::Before => true,
            // after-code (and a replacement) requested on the final `end` is legal and is not emitted (C15)
            Mode::After => !last || final_end_too,
            Mode::Alternate if last => final_end_too,
            Mode::Alternate | Mode::EmptyAlternate => {
                // replacing a structural instruction with neutral code would unbalance the body
                !last
                    && !is_magic
                    && !mi.ins.is_block_style()
                    && !matches!(mi.ins, Ins::End)
                    && (mode == Mode::Alternate || is_self_contained(l, i))
            }
            Mode::SemanticAfter => (mi.ins.is_block_style() && !matches!(mi.ins, Ins::Loop(_))) || mi.ins.is_branch(),
            Mode::BlockEntry | Mode::BlockExit => mi.ins.is_block_style(),
            Mode::BlockAlt | Mode::EmptyBlockAlt => mi.ins.is_block_style(),
            Mode::FuncEntry | Mode::FuncExit => i == 0,
        };
        if ok || (misapplied && mode.is_special() && !matches!(mode, Mode::FuncEntry | Mode::FuncExit) && !last && !is_magic) {
            v.push(i as u32);
        }
    }
    v
}

/// An instruction can be replaced/removed by stack-neutral code only if it is itself stack-neutral,
/// which in gadget-built bodies means: it is not part of a gadget. We therefore only allow
/// alternates on `nop`s and on whole single-instruction gadgets (none) -- plus instructions whose
/// removal keeps validity because the generator pairs them: handled by replacing with an
/// equivalent-typed instruction. To stay simple and sound: alternates are placed on `Nop` only,
/// or on any instruction when the replacement is the *same instruction* prefixed by the probe.
fn is_self_contained(l: &MLocal, i: usize) -> bool {
    matches!(l.body[i].ins, Ins::Nop)
}

pub struct OpGen<'a> {
    pub rng: &'a mut Rng,
    pub p: &'a Profile,
    pub st: &'a mut GenState,
}

impl OpGen<'_> {
    fn tag(&mut self) -> Option<Vec<u8>> {
        tag_opt(self.rng, self.p.tags)
    }

    fn build_parts(&mut self, m: &Model, params: &[VT], results: &[VT]) -> (Vec<VT>, Vec<Ins>, i64) {
        let ctx = ctx_of_model(m, self.p);
        let mut locals = vec![];
        for _ in 0..self.rng.range(0, 3) {
            locals.push(*self.rng.pick(&[VT::I32, VT::I64, VT::F32, VT::F64, VT::FuncRef]));
        }
        let magic = self.st.func_magic();
        let size = self.rng.range(1, 6);
        let mut cg = CodeGen {
            rng: self.rng,
            ctx: &ctx,
            params: params.to_vec(),
            locals: locals.clone(),
            results: results.to_vec(),
            control_flow: self.p.control_flow,
        };
        let body = cg.body(magic, size);
        (locals, body, magic)
    }

    pub fn gen(&mut self, kind: &str, m: &Model) -> Option<Op> {
        let (rf, rg, rm) = m.referenced();
        match kind {
            "add_import_func" => {
                let tys: Vec<u32> = (0..m.types.len() as u32)
                    .filter(|i| {
                        let t = &m.types[*i as usize].ty;
                        matches!(t.comp, Comp::Func(..)) && t.supertype.is_none() && t.is_final
                    })
                    .collect();
                let ty = *self.rng.pick_opt(&tys)?;
                Some(Op::AddImportFunc {
                    module: "env".into(),
                    name: self.st.names.next("ai"),
                    ty,
                    tag: self.tag(),
                })
            }
            "build_func" => {
                let (a, b) = *self.rng.pick(&SIG_POOL[..7]);
                let (locals, body, magic) = self.build_parts(m, a, b);
                Some(Op::BuildFunc {
                    params: a.to_vec(),
                    results: b.to_vec(),
                    locals,
                    body,
                    name: if self.rng.chance(1, 2) { Some(self.st.names.next("bf")) } else { None },
                    tag: self.tag(),
                    magic,
                })
            }
            "delete_func" => {
                let c: Vec<u32> = m
                    .alive_funcs()
                    .into_iter()
                    .filter(|f| self.p.dangling || !rf.contains(f))
                    .collect();
                Some(Op::DeleteFunc { id: *self.rng.pick_opt(&c)? })
            }
            "convert_local_to_import" => {
                let c = m.alive_local_funcs();
                let id = *self.rng.pick_opt(&c)?;
                let (a, b) = m.func_sig(id)?;
                let mut tys = m.find_func_type(&a, &b);
                // a function of the input keeps a type equivalent to its declared one (same finality and
                // supertype): typed references to it (`(ref null $t)` element segments) would otherwise
                // stop validating because of what the caller asked for, not because of the library
                {
                    // (a function of the input: a local one, or an import that got a body through replace_import)
                    struct Own {
                        ty: u32,
                    }
                    if let Some(f) = m.base.func_type_of(id).map(|ty| Own { ty }) {
                        let own = m.types.get(f.ty as usize).map(|t| t.ty.clone());
                        // members of a larger rec group are distinct from every type outside the group
                        let group_size = |t: u32| -> usize {
                            let mut k = 0u32;
                            for g in &m.base.types {
                                if t < k + g.types.len() as u32 {
                                    return g.types.len();
                                }
                                k += g.types.len() as u32;
                            }
                            1
                        };
                        tys.retain(|t| *t == f.ty || (m.types.get(*t as usize).map(|x| x.ty.clone()) == own && group_size(*t) == 1 && group_size(f.ty) == 1));
                    }
                }
                let ty = *self.rng.pick_opt(&tys)?;
                Some(Op::ConvertLocalToImport {
                    id,
                    module: "env".into(),
                    name: self.st.names.next("cv"),
                    ty,
                    tag: self.tag(),
                })
            }
            "replace_import" => {
                let c = m.alive_import_funcs();
                let id = *self.rng.pick_opt(&c)?;
                let imp = match m.funcs[id as usize].kind {
                    MFK::Import { imp, .. } => imp,
                    _ => return None,
                };
                let (a, b) = m.func_sig(id)?;
                let (locals, body, magic) = self.build_parts(m, &a, &b);
                Some(Op::ReplaceImport {
                    imp,
                    params: a,
                    results: b,
                    locals,
                    body,
                    tag: self.tag(),
                    magic,
                })
            }
            "set_fn_name" => {
                let c = m.alive_funcs();
                let id = *self.rng.pick_opt(&c)?;
                // one time in three through the lower-level naming call that applies to this function
                let via = if self.rng.chance(1, 3) {
                    match m.funcs[id as usize].kind {
                        MFK::Local(_) => 1,
                        MFK::Import { imp, .. } if id < m.base.num_imp_funcs() && (imp as usize) < m.base.imports.len() => 2,
                        _ => 0,
                    }
                } else {
                    0
                };
                Some(Op::SetFnName {
                    id,
                    name: self.st.names.next("sn"),
                    via,
                })
            }
            "imports_set_name" => {
                let c = m.alive_import_funcs();
                let id = *self.rng.pick_opt(&c)?;
                match m.funcs[id as usize].kind {
                    MFK::Import { imp, .. } => Some(Op::ImportsSetName {
                        imp,
                        name: self.st.names.next("in"),
                    }),
                    _ => None,
                }
            }
            "add_global" | "iter_add_global" => {
                let mutable = self.rng.chance(1, 2);
                let imm: Vec<(u32, VT)> = m
                    .alive_globals()
                    .into_iter()
                    .filter_map(|g| match &m.globals[g as usize].kind {
                        MGK::Import { ty, mutable: false, .. } => Some((g, *ty)),
                        _ => None,
                    })
                    .collect();
                let r = self.rng.below(10);
                let (ty, init) = if r < 2 && !imm.is_empty() {
                    let (g, ty) = *self.rng.pick(&imm);
                    let key = (ty, mutable, "global.get".to_string());
                    if self.st.used_gother.contains(&key) {
                        (ty, self.st.gconst(self.rng, ty))
                    } else {
                        self.st.used_gother.push(key);
                        (ty, ConstE::GlobalGet(g))
                    }
                } else if r < 4 && !m.alive_funcs().is_empty() {
                    let key = (VT::FuncRef, mutable, "ref.func".to_string());
                    if self.st.used_gother.contains(&key) {
                        (VT::I32, self.st.gconst(self.rng, VT::I32))
                    } else {
                        self.st.used_gother.push(key);
                        (VT::FuncRef, ConstE::RefFunc(*self.rng.pick(&m.alive_funcs())))
                    }
                } else if r < 5 {
                    let ty = *self.rng.pick(&[VT::FuncRef, VT::ExternRef]);
                    let key = (ty, mutable, "ref.null".to_string());
                    if self.st.used_gother.contains(&key) {
                        (VT::I64, self.st.gconst(self.rng, VT::I64))
                    } else {
                        self.st.used_gother.push(key);
                        (ty, ConstE::RefNull(ty == VT::FuncRef))
                    }
                } else {
                    let mut pool = vec![VT::I32, VT::I64, VT::F32, VT::F64];
                    if self.p.simd {
                        pool.push(VT::V128);
                    }
                    let ty = *self.rng.pick(&pool);
                    (ty, self.st.gconst(self.rng, ty))
                };
                if kind == "add_global" {
                    Some(Op::AddGlobal { init, ty, mutable, tag: self.tag() })
                } else {
                    if m.alive_local_funcs().is_empty() {
                        return None;
                    }
                    Some(Op::IterAddGlobal { init, ty, mutable })
                }
            }
            "add_imported_global" => Some(Op::AddImportedGlobal {
                module: "env".into(),
                name: self.st.names.next("ag"),
                ty: *self.rng.pick(&[VT::I32, VT::I64, VT::F32, VT::F64]),
                mutable: self.rng.chance(1, 3),
                tag: self.tag(),
            }),
            "delete_global" => {
                let c: Vec<u32> = m
                    .alive_globals()
                    .into_iter()
                    .filter(|g| self.p.dangling || !rg.contains(g))
                    .collect();
                Some(Op::DeleteGlobal { id: *self.rng.pick_opt(&c)? })
            }
            "mod_global_init" => {
                let c: Vec<u32> = m
                    .alive_globals()
                    .into_iter()
                    .filter(|g| matches!(&m.globals[*g as usize].kind, MGK::Local { init, .. } if !matches!(init, ConstE::GlobalGet(_) | ConstE::RefFunc(_) | ConstE::RefNull(_))))
                    .collect();
                let id = *self.rng.pick_opt(&c)?;
                let (ty, _, _) = m.global_ty(id)?;
                if let MGK::Local { init: ConstE::StructNew(t, _), .. } = &m.globals[id as usize].kind {
                    // a new aggregate initialiser: again several references in one initialiser
                    let imm: Vec<u32> = m
                        .alive_globals()
                        .into_iter()
                        .filter(|g| matches!(&m.globals[*g as usize].kind, MGK::Import { ty: VT::I32, mutable: false, .. }))
                        .collect();
                    let a = *self.rng.pick_opt(&imm)?;
                    let b = if self.rng.chance(2, 3) { ConstE::GlobalGet(*self.rng.pick(&imm)) } else { ConstE::I32(self.rng.below(50) as i32) };
                    return Some(Op::ModGlobalInit { id, init: ConstE::StructNew(*t, vec![ConstE::GlobalGet(a), b]) });
                }
                Some(Op::ModGlobalInit {
                    id,
                    init: self.st.gconst(self.rng, ty),
                })
            }
            "add_local_memory" => {
                if !self.p.multi_memory && !self.p.add_mem_anyway && !m.alive_mems().is_empty() {
                    return None;
                }
                Some(Op::AddLocalMemory {
                    ty: MemT {
                        min: self.st.mem_min(),
                        max: if self.rng.chance(1, 2) { Some(300 + self.rng.below(10) as u64) } else { None },
                        shared: false,
                        memory64: self.p.multi_memory && self.rng.chance(1, 6),
                        page1: self.p.multi_memory && self.rng.chance(1, 5),
                    },
                    tag: self.tag(),
                })
            }
            "add_import_memory" => {
                if !self.p.multi_memory && !self.p.add_mem_anyway && !m.alive_mems().is_empty() {
                    return None;
                }
                Some(Op::AddImportMemory {
                    module: "env".into(),
                    name: self.st.names.next("am"),
                    ty: MemT {
                        min: self.st.mem_min(),
                        max: if self.rng.chance(1, 2) { Some(400 + self.rng.below(10) as u64) } else { None },
                        shared: false,
                        memory64: false,
                        page1: self.p.multi_memory && self.rng.chance(1, 5),
                    },
                    tag: self.tag(),
                })
            }
            "delete_memory" => {
                let c: Vec<u32> = m
                    .alive_mems()
                    .into_iter()
                    .filter(|g| self.p.dangling || !rm.contains(g))
                    .collect();
                Some(Op::DeleteMemory { id: *self.rng.pick_opt(&c)? })
            }
            "add_data" => {
                let mems = m.alive_mems();
                let len = self.rng.range(1, 6);
                let bytes = self.rng.bytes(len);
                let mode = if mems.is_empty() || self.rng.chance(1, 3) {
                    DataMode::Passive
                } else {
                    let mem = *self.rng.pick(&mems);
                    let mt = m.mems[mem as usize].ty;
                    // offsets: constants, or global.get of an immutable imported i32 global
                    let imm: Vec<u32> = m
                        .alive_globals()
                        .into_iter()
                        .filter(|g| matches!(&m.globals[*g as usize].kind, MGK::Import { ty: VT::I32, mutable: false, .. }))
                        .collect();
                    DataMode::Active {
                        mem,
                        offset: if mt.memory64 {
                            ConstE::I64(self.rng.below(50) as i64)
                        } else if !imm.is_empty() && self.rng.chance(1, 3) {
                            ConstE::GlobalGet(*self.rng.pick(&imm))
                        } else {
                            ConstE::I32(self.rng.below(50) as i32)
                        },
                    }
                };
                // a passive segment needs a data count section only when code refers to it
                Some(Op::AddData { mode, bytes, tag: self.tag() })
            }
            "add_export_func" => {
                let c = m.alive_funcs();
                // sometimes under the name of an export that was deleted earlier (names only have to be
                // unique among the exports that are alive)
                let freed: Vec<String> = m.exports.iter().filter(|e| e.deleted && !m.exports.iter().any(|o| !o.deleted && o.name == e.name)).map(|e| e.name.clone()).collect();
                let reuse = if self.rng.chance(1, 3) { self.rng.pick_opt(&freed).cloned() } else { None };
                Some(Op::AddExportFunc {
                    name: reuse.unwrap_or_else(|| self.st.names.next("xf")),
                    id: *self.rng.pick_opt(&c)?,
                    tag: self.tag(),
                })
            }
            "add_export_mem" => {
                let c = m.alive_mems();
                let freed: Vec<String> = m.exports.iter().filter(|e| e.deleted && !m.exports.iter().any(|o| !o.deleted && o.name == e.name)).map(|e| e.name.clone()).collect();
                let reuse = if self.rng.chance(1, 3) { self.rng.pick_opt(&freed).cloned() } else { None };
                Some(Op::AddExportMem {
                    name: reuse.unwrap_or_else(|| self.st.names.next("xm")),
                    id: *self.rng.pick_opt(&c)?,
                    tag: self.tag(),
                })
            }
            "delete_export" => {
                let c: Vec<u32> = (0..m.exports.len() as u32).filter(|e| !m.exports[*e as usize].deleted).collect();
                Some(Op::DeleteExport { exp: *self.rng.pick_opt(&c)? })
            }
            "add_type" => {
                let req = match self.rng.below(if self.p.gc_types { 3 } else { 1 }) {
                    0 => {
                        let (a, b) = *self.rng.pick(SIG_POOL);
                        TypeReq::Func(a.to_vec(), b.to_vec())
                    }
                    1 => TypeReq::Struct((0..self.rng.range(0, 3)).map(|_| (gen_st(self.rng), self.rng.chance(1, 2))).collect()),
                    _ => TypeReq::Array(gen_st(self.rng), self.rng.chance(1, 2)),
                };
                let with_params = if self.p.gc_types && self.rng.chance(1, 3) {
                    // supertype: an existing non-final type of identical shape
                    let comp = match &req {
                        TypeReq::Func(p, r) => Comp::Func(p.clone(), r.clone()),
                        TypeReq::Struct(f) => Comp::Struct(f.clone()),
                        TypeReq::Array(t, mm) => Comp::Array(*t, *mm),
                    };
                    let sup: Vec<u32> = (0..m.types.len() as u32)
                        .filter(|i| !m.types[*i as usize].ty.is_final && m.types[*i as usize].ty.comp == comp)
                        .collect();
                    let s = if self.rng.chance(1, 2) { self.rng.pick_opt(&sup).copied() } else { None };
                    Some((s, self.rng.chance(1, 2), false))
                } else {
                    None
                };
                // repeat an earlier request sometimes (dedup)
                if !m.type_requests.is_empty() && self.rng.chance(1, 3) {
                    let (t, _) = self.rng.pick(&m.type_requests).clone();
                    let req = match &t.comp {
                        Comp::Func(p, r) => TypeReq::Func(p.clone(), r.clone()),
                        Comp::Struct(f) => TypeReq::Struct(f.clone()),
                        Comp::Array(a, b) => TypeReq::Array(*a, *b),
                    };
                    let wp = if t.is_final && t.supertype.is_none() && !t.shared && self.rng.chance(1, 2) {
                        None
                    } else {
                        Some((t.supertype, t.is_final, t.shared))
                    };
                    return Some(Op::AddType { req, with_params: wp, tag: self.tag() });
                }
                Some(Op::AddType { req, with_params, tag: self.tag() })
            }
            "custom_add" => {
                let (name, data) = custom_name_and_data(self.rng, self.st);
                Some(Op::CustomAdd { name, data })
            }
            "custom_delete" => {
                if m.customs.is_empty() {
                    return None;
                }
                Some(Op::CustomDelete { id: self.rng.below(m.customs.len()) as u32 })
            }
            "custom_edit" => {
                if m.customs.is_empty() {
                    return None;
                }
                let len = self.rng.range(0, 8);
                Some(Op::CustomEdit {
                    id: self.rng.below(m.customs.len()) as u32,
                    data: self.rng.bytes(len),
                })
            }
            "add_local" => {
                let c = m.alive_local_funcs();
                let func = *self.rng.pick_opt(&c)?;
                let mut pool = vec![VT::I32, VT::I64, VT::F32, VT::F64, VT::FuncRef, VT::ExternRef];
                if self.p.simd {
                    pool.push(VT::V128);
                }
                Some(Op::AddLocal {
                    func,
                    ty: *self.rng.pick(&pool),
                    api: *self.rng.pick(&[LocalApi::Modifier, LocalApi::ModifierAddLocals, LocalApi::Iterator]),
                })
            }
            "inject" => {
                let c = m.alive_local_funcs();
                let func = *self.rng.pick_opt(&c)?;
                let l = m.local(func)?;
                let api = *self.rng.pick(&self.p.apis);
                let ctx = ctx_of_model(m, self.p);
                let n_sites = self.rng.range(1, 3);
                let mut sites = vec![];
                for _ in 0..n_sites {
                    let mode = *self.rng.pick(&self.p.modes);
                    if self.p.clears && self.rng.chance(1, 8) {
                        // take back what this history injected somewhere in this function (one list)
                        let mut lists: Vec<(u32, Mode)> = vec![];
                        for (i, b) in l.body.iter().enumerate() {
                            let i = i as u32;
                            if sites.iter().any(|s: &Site| s.instr == i) {
                                continue; // never together with an injection of the same op
                            }
                            if !b.before.ins.is_empty() {
                                lists.push((i, Mode::Before));
                            }
                            if !b.after.ins.is_empty() {
                                lists.push((i, Mode::After));
                            }
                            if b.alternate.is_some() {
                                lists.push((i, Mode::Alternate));
                            }
                            if !b.sem_after.ins.is_empty() {
                                lists.push((i, Mode::SemanticAfter));
                            }
                            if !b.block_entry.ins.is_empty() {
                                lists.push((i, Mode::BlockEntry));
                            }
                            if !b.block_exit.ins.is_empty() {
                                lists.push((i, Mode::BlockExit));
                            }
                        }
                        if let Some((i, m)) = self.rng.pick_opt(&lists) {
                            sites.push(Site { instr: *i, mode: *m, body: vec![], magic: 0, tag: None, clear: true });
                        }
                        continue;
                    }
                    let mis = self.p.misapplied && self.rng.chance(1, 6);
                    let final_end_too = self.p.final_end_after && self.rng.chance(1, 6);
                    let cands = site_candidates(l, mode, mis, final_end_too);
                    let instr = match self.rng.pick_opt(&cands) {
                        Some(i) => *i,
                        None => continue,
                    };
                    // nothing but another block-alternate is placed on or inside a region that is
                    // replaced, and a region that already carries other instrumentation is not
                    // replaced (the property fixes no lowering for those combinations). Nested
                    // block-alternates are explored: the outermost replacement wins. An `else`
                    // and its own `if` are never both replaced.
                    // regions are (first, last) with the `if`'s end included for an `else` region
                    let ext = |body: &[MInstr], i: usize| -> Option<(usize, usize)> {
                        block_region(body, i).map(|(a, b)| if matches!(body[i].ins, Ins::Else) { (a, b + 1) } else { (a, b) })
                    };
                    let mut regions: Vec<(usize, usize)> = (0..l.body.len())
                        .filter(|i| l.body[*i].block_alt.is_some())
                        .filter_map(|i| ext(&l.body, i))
                        .collect();
                    let mut instrumented: Vec<usize> = (0..l.body.len())
                        .filter(|i| {
                            let b = &l.body[*i];
                            !b.before.ins.is_empty()
                                || !b.after.ins.is_empty()
                                || b.alternate.is_some()
                                || !b.sem_after.ins.is_empty()
                                || !b.block_entry.ins.is_empty()
                                || !b.block_exit.ins.is_empty()
                        })
                        .collect();
                    for s in sites.iter() {
                        let s: &Site = s;
                        if matches!(s.mode, Mode::BlockAlt | Mode::EmptyBlockAlt) {
                            if let Some(r) = ext(&l.body, s.instr as usize) {
                                regions.push(r);
                                continue;
                            }
                        }
                        instrumented.push(s.instr as usize);
                    }
                    let i = instr as usize;
                    if matches!(mode, Mode::BlockAlt | Mode::EmptyBlockAlt) && l.body[i].ins.is_block_style() {
                        let (a, b2) = match ext(&l.body, i) {
                            Some(r) => r,
                            None => continue,
                        };
                        let compatible = |x: usize, y: usize| b2 < x || y < a || (a > x && b2 < y) || (x > a && y < b2);
                        // instrumentation strictly inside the construct goes away with it; on the
                        // opener or the closing end no lowering is stated, so those stay exclusive
                        if regions.iter().any(|(x, y)| !compatible(*x, *y))
                            || instrumented.iter().any(|k| *k == a || *k == b2 || (!self.p.region_interior && *k > a && *k < b2))
                            || (mode == Mode::EmptyBlockAlt && matches!(l.body[i].ins, Ins::If(_)))
                        {
                            continue;
                        }
                    } else if regions.iter().any(|(x, y)| {
                        (i >= *x && i <= *y + 1)
                            && !(self.p.region_interior && i > *x && i < *y)
                            && !(self.p.opener_special
                                && i == *x
                                && matches!(mode, Mode::BlockEntry | Mode::BlockExit | Mode::SemanticAfter)
                                && !instrumented.contains(&i)
                                && (l.body[i].block_alt.as_ref().map_or(false, |b| !b.ins.is_empty())
                                    || sites.iter().any(|s: &Site| s.instr as usize == i && s.mode == Mode::BlockAlt && !s.clear))
                                && !sites.iter().any(|s: &Site| s.instr as usize == i && s.mode == Mode::EmptyBlockAlt))
                    }) {
                        continue;
                    }
                    // a type-preserving replacement repeats the instruction, so an instruction
                    // other than `nop` gets at most one alternate
                    if mode == Mode::Alternate
                        && !matches!(l.body[instr as usize].ins, Ins::Nop)
                        && (l.body[instr as usize].alternate.is_some()
                            || sites.iter().any(|s: &Site| s.instr == instr && s.mode == Mode::Alternate))
                    {
                        continue;
                    }
                    let (body, magic) = if matches!(mode, Mode::EmptyAlternate | Mode::EmptyBlockAlt) {
                        (vec![], 0)
                    } else {
                        let magic = self.st.probe_magic();
                        let mut cg = CodeGen {
                            rng: self.rng,
                            ctx: &ctx,
                            params: l.params.clone(),
                            locals: l.base_locals.iter().chain(l.added_locals.iter()).copied().collect(),
                            results: l.results.clone(),
                            control_flow: false,
                        };
                        let mut b = cg.probe(magic);
                        if mode == Mode::BlockAlt && matches!(l.body[instr as usize].ins, Ins::If(_)) {
                            // the replacement of an `if` construct consumes its condition
                            b.insert(0, Ins::Drop);
                        }
                        if mode == Mode::Alternate && !matches!(l.body[instr as usize].ins, Ins::Nop) {
                            // type-preserving replacement: the probe followed by the instruction itself
                            b.push(l.body[instr as usize].ins.clone());
                        }
                        (b, magic)
                    };
                    let tag = if matches!(mode, Mode::EmptyAlternate | Mode::EmptyBlockAlt) { None } else { self.tag() };
                    sites.push(Site { instr, mode, body, magic, tag, clear: false });
                }
                if sites.is_empty() {
                    return None;
                }
                Some(Op::Inject { func, api, sites })
            }
            _ => panic!("harness: unknown op kind {kind}"),
        }
    }
}

pub const SCHEDULERS: [&str; 4] = ["uniform", "run_to_completion", "round_robin", "priority"];

/// Generate client programs and the schedule, using the model as the generator-side state.
pub fn gen_history(rng: &mut Rng, p: &Profile, st: &mut GenState, base: &ModuleSpec) -> (Vec<Vec<Op>>, Vec<u8>, String) {
    let n_clients = rng.range(1, p.max_clients);
    let budgets: Vec<usize> = (0..n_clients).map(|_| rng.geom(p.mean_ops, 12)).collect();
    let mut left = budgets.clone();
    let scheduler = *rng.pick(&SCHEDULERS);
    let mut prio: Vec<usize> = (0..n_clients).collect();
    rng.shuffle(&mut prio);
    let mut rr = 0usize;
    let mut model = Model::new(base);
    let mut clients: Vec<Vec<Op>> = vec![vec![]; n_clients];
    let mut schedule = vec![];
    // each client prefers a random subset of the profile's op kinds (its "pass")
    let masks: Vec<Vec<(&'static str, u32)>> = (0..n_clients)
        .map(|_| {
            let v: Vec<_> = p.ops.iter().filter(|_| rng.chance(2, 3)).cloned().collect();
            if v.is_empty() {
                p.ops.clone()
            } else {
                v
            }
        })
        .collect();
    let total: usize = budgets.iter().sum::<usize>().min(24);
    for _ in 0..total {
        let runnable: Vec<usize> = (0..n_clients).filter(|c| left[*c] > 0).collect();
        if runnable.is_empty() {
            break;
        }
        let c = match scheduler {
            "uniform" => *rng.pick(&runnable),
            "run_to_completion" => *prio.iter().find(|c| left[**c] > 0).unwrap(),
            "round_robin" => {
                let mut c = rr % n_clients;
                while left[c] == 0 {
                    rr += 1;
                    c = rr % n_clients;
                }
                rr += 1;
                c
            }
            _ => {
                if rng.chance(1, 5) {
                    rng.shuffle(&mut prio);
                }
                *prio.iter().find(|c| left[**c] > 0).unwrap()
            }
        };
        left[c] -= 1;
        // try a few kinds until one is applicable
        let mut made = None;
        for _ in 0..4 {
            let w: u32 = masks[c].iter().map(|(_, w)| *w).sum();
            if w == 0 {
                break;
            }
            let mut x = rng.below(w as usize) as u32;
            let mut kind = masks[c][0].0;
            for (k, wt) in &masks[c] {
                if x < *wt {
                    kind = k;
                    break;
                }
                x -= wt;
            }
            let mut og = OpGen { rng, p, st };
            if let Some(op) = og.gen(kind, &model) {
                if model.precond(&op) {
                    made = Some(op);
                    break;
                }
            }
        }
        if let Some(op) = made {
            model.apply(&op);
            clients[c].push(op);
            schedule.push(c as u8);
        }
    }
    (clients, schedule, scheduler.to_string())
}

pub fn gen_tail(rng: &mut Rng, reencode: bool) -> Vec<Tail> {
    if !reencode {
        // one encoding, or (1 in 5) a second one after a first successful / failed emission: the
        // structural oracles then also judge the last encoding against the model
        if rng.chance(1, 8) {
            // the side-effect report is an encoding pass of its own: what is encoded after it must
            // still satisfy the model
            return vec![Tail::PullSideEffects, Tail::Encode];
        }
        if rng.chance(1, 5) {
            let first = match rng.below(20) {
                0..=11 => Tail::Encode,
                12..=14 => Tail::EmitOk,
                15..=16 => Tail::EmitFail(FailKind::Enospc),
                17..=18 => Tail::EmitFail(FailKind::Enoent),
                _ => Tail::EmitFail(FailKind::Eisdir),
            };
            return vec![first, Tail::Encode];
        }
        return vec![Tail::Encode];
    }
    let n = rng.range(2, 4);
    let mut v = vec![];
    for _ in 0..n {
        v.push(match rng.below(11) {
            10 => Tail::PullSideEffects,
            0..=4 => Tail::Encode,
            5..=6 => Tail::EmitOk,
            7 => Tail::EmitFail(FailKind::Enospc),
            8 => Tail::EmitFail(FailKind::Enoent),
            _ => Tail::EmitFail(FailKind::Eisdir),
        });
    }
    if !v.iter().any(|t| matches!(t, Tail::Encode | Tail::EmitOk)) {
        v.push(Tail::Encode);
    }
    // at least two successful encodings
    if v.iter().filter(|t| matches!(t, Tail::Encode | Tail::EmitOk)).count() < 2 {
        v.push(Tail::Encode);
    }
    v
}

pub fn gen_scenario(property: &str, p: &Profile, run_seed: u64, reencode_tail: bool) -> Result<Scenario, String> {
    let mut rng = Rng::new(run_seed);
    let mut st = GenState::new();
    let base = gen_base(&mut rng, p, &mut st);
    let bytes = base.to_bytes();
    validate(&bytes).map_err(|e| format!("generated base module does not validate: {e}"))?;
    let (clients, schedule, scheduler) = gen_history(&mut rng, p, &mut st, &base);
    let tail = gen_tail(&mut rng, reencode_tail);
    let hash_seed = rng.next();
    Ok(Scenario {
        property: property.into(),
        profile: p.name.into(),
        seed: run_seed,
        hash_seed,
        multi_memory: p.multi_memory,
        base,
        clients,
        schedule,
        scheduler,
        tail,
        exec: None,
        info: None,
        walk: None,
        comp: None,
        xproc: 0,
    })
}
