//! A small deterministic interpreter over decoded modules (`ModuleSpec`), covering exactly the
//! instruction subset the executed-program generator emits. It is a stub for a production engine:
//! original and instrumented modules run on the same interpreter and every oracle is phrased over
//! host-call traces. Anything outside the subset is a harness error, never a violation.
use crate::ins::{Ins, MemOp, MemShape, Simple, BT, VT};
use crate::model::func_magic_of;
use crate::spec::*;

#[derive(Clone, Copy, Debug, PartialEq, Eq)]
pub enum Val {
    I32(i32),
    I64(i64),
    F32(u32),
    F64(u64),
    V128(u128),
    Ref(Option<u32>),
}
impl Val {
    pub fn default_of(t: VT) -> Val {
        match t {
            VT::I32 => Val::I32(0),
            VT::I64 => Val::I64(0),
            VT::F32 => Val::F32(0),
            VT::F64 => Val::F64(0),
            VT::V128 => Val::V128(0),
            VT::FuncRef | VT::ExternRef | VT::AnyRef => Val::Ref(None),
        }
    }
}

#[derive(Clone, Debug, PartialEq, Eq)]
pub enum Trap {
    Unreachable,
    /// `throw` with no handler anywhere: the exception leaves every frame
    Exception,
    DivZero,
    Overflow,
    Oob,
    Host,
    Depth,
    NoSuchHost,
}

#[derive(Clone, Debug, PartialEq, Eq)]
pub enum LeaveHow {
    Normal,
    Trap(Trap),
}

#[derive(Clone, Debug, PartialEq, Eq)]
pub enum Ev {
    Mark(i32),
    Probe(i32),
    Choose(i32),
    Sink(i64),
    Enter(i64),
    Leave(i64, LeaveHow),
}

#[derive(Debug)]
pub enum Stop {
    Trap(Trap),
    /// an exception (tag without parameters) travelling up to the nearest matching `try_table`;
    /// converted to `Trap::Exception` when it leaves the outermost frame
    Thrown(u32),
    /// step cap / unsupported instruction: the run is discarded (never a violation)
    Cap,
    Harness(String),
}

pub struct Host {
    pub trace: Vec<Ev>,
    pub tape: Vec<i32>,
    pub tape_pos: usize,
    /// the n-th mark/choose call traps (fault injection); counted over mark+choose only
    pub trap_at: Option<usize>,
    pub host_calls: usize,
    /// virtual control-flow events of the ORIGINAL program (recorded only when requested):
    /// (number of trace events recorded before it, kind, local function position, instruction index)
    pub virt: Option<Vec<(usize, u8, u32, u32)>>,
    /// (local function position, instruction index) pairs for which V_EXEC / V_DONE are recorded
    pub watch: Vec<(u32, u32)>,
}

/// control entered the body opened at this instruction (block / loop incl. every re-entry / then-arm at
/// the `if` / else-arm at the `else`)
pub const V_ENTER: u8 = 0;
/// the body fell through to this `else` / `end`
pub const V_FALL: u8 = 1;
/// control reached the instruction after the construct closed by this `end` (fall-through, a branch
/// to its label, a caught exception landing there, or an else-less `if` whose condition was false)
pub const V_AFTER: u8 = 2;
/// a watched instruction is about to execute
pub const V_EXEC: u8 = 3;
/// a watched instruction has completed and control goes on to the next instruction (it did not branch
/// away, trap, throw or return)
pub const V_DONE: u8 = 4;

pub struct Instance<'a> {
    pub m: &'a ModuleSpec,
    pub types: Vec<&'a SubT>,
    pub n_imp_funcs: u32,
    pub imp_names: Vec<String>,
    pub globals: Vec<Val>,
    pub mems: Vec<Vec<u8>>,
    pub steps: u64,
    pub step_cap: u64,
    /// per local function: matching positions (opener -> (else, end))
    pub ctrl: Vec<Vec<(usize, Option<usize>, usize)>>,
    pub host: Host,
}

#[derive(Clone, Copy)]
struct Label {
    is_loop: bool,
    /// a `try_table` frame (its catch clauses are read from the instruction at `start`)
    is_try: bool,
    start: usize,
    end: usize,
    height: usize,
    arity: usize,
}

/// Relative depth of the label a `throw` of `tag` inside the current frame branches to, if one of the
/// enclosing `try_table`s of this frame catches it (innermost first; clause labels are relative to the
/// context enclosing the `try_table`).
fn handler_depth(body: &[Ins], labels: &[Label], tag: u32) -> Option<u32> {
    for i in (1..labels.len()).rev() {
        if !labels[i].is_try {
            continue;
        }
        if let Ins::TryTable(_, catches) = &body[labels[i].start] {
            for (t, l) in catches {
                if t.is_none() || *t == Some(tag) {
                    let target = (i - 1).checked_sub(*l as usize)?;
                    return Some((labels.len() - 1 - target) as u32);
                }
            }
        }
    }
    None
}

fn build_ctrl(body: &[Ins]) -> Result<Vec<(usize, Option<usize>, usize)>, String> {
    let mut v = vec![];
    let mut stack: Vec<usize> = vec![];
    for (i, ins) in body.iter().enumerate() {
        match ins {
            Ins::Block(_) | Ins::Loop(_) | Ins::If(_) | Ins::TryTable(..) => {
                stack.push(v.len());
                v.push((i, None, usize::MAX));
            }
            Ins::Else => {
                let k = *stack.last().ok_or("else without if")?;
                v[k].1 = Some(i);
            }
            Ins::End => {
                if let Some(k) = stack.pop() {
                    v[k].2 = i;
                }
            }
            _ => {}
        }
    }
    Ok(v)
}

impl<'a> Instance<'a> {
    pub fn new(m: &'a ModuleSpec, tape: Vec<i32>, trap_at: Option<usize>, step_cap: u64) -> Result<Instance<'a>, String> {
        let types = m.flat_types();
        let mut imp_names = vec![];
        let mut globals = vec![];
        let mut mems = vec![];
        for i in &m.imports {
            match &i.kind {
                ImpKind::Func(_) => imp_names.push(i.name.clone()),
                ImpKind::Global { ty, .. } => globals.push(Val::default_of(*ty)),
                ImpKind::Memory(t) => mems.push(vec![0u8; (t.min.min(4) as usize) * 65536]),
                _ => {}
            }
        }
        for g in &m.globals {
            globals.push(match &g.init {
                ConstE::I32(v) => Val::I32(*v),
                ConstE::I64(v) => Val::I64(*v),
                ConstE::F32(v) => Val::F32(*v),
                ConstE::F64(v) => Val::F64(*v),
                ConstE::V128(v) => Val::V128(*v),
                ConstE::GlobalGet(i) => *globals.get(*i as usize).ok_or("global.get init out of range")?,
                ConstE::RefFunc(f) => Val::Ref(Some(*f)),
                ConstE::RefNull(_) => Val::Ref(None),
                ConstE::ExtAdd(a, b) => Val::I32(a.wrapping_add(*b)),
                ConstE::StructNew(..) => return Err("GC aggregate initialisers are not executed".into()),
            });
        }
        for t in &m.memories {
            mems.push(vec![0u8; (t.min.min(4) as usize) * 65536]);
        }
        for d in &m.data {
            if let DataMode::Active { mem, offset } = &d.mode {
                let off = match offset {
                    ConstE::I32(v) => *v as u32 as usize,
                    ConstE::I64(v) => *v as usize,
                    _ => return Err("unsupported data offset".into()),
                };
                let mm = mems.get_mut(*mem as usize).ok_or("data memory")?;
                if off + d.bytes.len() > mm.len() {
                    return Err("data segment out of bounds".into());
                }
                mm[off..off + d.bytes.len()].copy_from_slice(&d.bytes);
            }
        }
        let mut ctrl = vec![];
        for f in &m.funcs {
            ctrl.push(build_ctrl(&f.body)?);
        }
        Ok(Instance {
            m,
            types,
            n_imp_funcs: imp_names.len() as u32,
            imp_names,
            globals,
            mems,
            steps: 0,
            step_cap,
            ctrl,
            host: Host {
                trace: vec![],
                tape,
                tape_pos: 0,
                trap_at,
                host_calls: 0,
                virt: None,
                watch: vec![],
            },
        })
    }

    fn virt(&mut self, kind: u8, li: usize, pc: usize) {
        let n = self.host.trace.len();
        if let Some(v) = &mut self.host.virt {
            v.push((n, kind, li as u32, pc as u32));
        }
    }

    fn sig(&self, ty: u32) -> Result<(Vec<VT>, Vec<VT>), String> {
        match self.types.get(ty as usize).map(|t| &t.comp) {
            Some(Comp::Func(p, r)) => Ok((p.clone(), r.clone())),
            _ => Err(format!("type {ty} is not a function type")),
        }
    }

    fn bt_arity(&self, bt: BT) -> Result<(usize, usize), String> {
        Ok(match bt {
            BT::Empty => (0, 0),
            BT::Val(_) => (0, 1),
            BT::Func(t) => {
                let (p, r) = self.sig(t)?;
                (p.len(), r.len())
            }
        })
    }

    fn host_call(&mut self, name: &str, args: &[Val]) -> Result<Vec<Val>, Stop> {
        let counted = name == "mark" || name == "choose";
        if counted {
            self.host.host_calls += 1;
            if self.host.trap_at == Some(self.host.host_calls) {
                return Err(Stop::Trap(Trap::Host));
            }
        }
        match (name, args) {
            ("mark", [Val::I32(k)]) => {
                self.host.trace.push(Ev::Mark(*k));
                Ok(vec![])
            }
            ("probe", [Val::I32(k)]) => {
                self.host.trace.push(Ev::Probe(*k));
                Ok(vec![])
            }
            ("choose", []) => {
                let v = self.host.tape.get(self.host.tape_pos).copied().unwrap_or(0);
                self.host.tape_pos += 1;
                self.host.trace.push(Ev::Choose(v));
                Ok(vec![Val::I32(v)])
            }
            ("helper" | "helper2", [Val::I32(a), Val::I32(b)]) => {
                // same observable behaviour as the built body `progen::helper_body` / the program's `helper2`
                let m = if name == "helper" { crate::progen::HELPER_MAGIC } else { crate::progen::HELPER2_MAGIC };
                self.host.trace.push(Ev::Enter(m));
                self.host.trace.push(Ev::Leave(m, LeaveHow::Normal));
                Ok(vec![Val::I32(a.wrapping_mul(3).wrapping_add(*b))])
            }
            ("sink", [Val::I64(v)]) => {
                self.host.trace.push(Ev::Sink(*v));
                Ok(vec![])
            }
            // an import the simulated host does not provide (generated programs never call one; an
            // instrumented module that does has been sent to the wrong function)
            _ => Err(Stop::Trap(Trap::NoSuchHost)),
        }
    }

    pub fn call(&mut self, f: u32, args: Vec<Val>, depth: u32) -> Result<Vec<Val>, Stop> {
        if depth > 150 {
            return Err(Stop::Trap(Trap::Depth));
        }
        if f < self.n_imp_funcs {
            let name = self.imp_names[f as usize].clone();
            return self.host_call(&name, &args);
        }
        let li = (f - self.n_imp_funcs) as usize;
        let func = self.m.funcs.get(li).ok_or_else(|| Stop::Harness(format!("call to unknown function {f}")))?;
        let magic = func_magic_of(&func.body).unwrap_or(-(li as i64) - 1);
        self.host.trace.push(Ev::Enter(magic));
        let mut r = self.run_body(li, args, depth);
        if let (Err(Stop::Thrown(_)), 0) = (&r, depth) {
            // nobody caught it
            r = Err(Stop::Trap(Trap::Exception));
        }
        match &r {
            Ok(_) => self.host.trace.push(Ev::Leave(magic, LeaveHow::Normal)),
            Err(Stop::Thrown(_)) => self.host.trace.push(Ev::Leave(magic, LeaveHow::Trap(Trap::Exception))),
            Err(Stop::Trap(t)) => self.host.trace.push(Ev::Leave(magic, LeaveHow::Trap(t.clone()))),
            _ => {}
        }
        r
    }

    fn run_body(&mut self, li: usize, args: Vec<Val>, depth: u32) -> Result<Vec<Val>, Stop> {
        let m = self.m;
        let func = &m.funcs[li];
        let (_, results) = self.sig(func.ty).map_err(Stop::Harness)?;
        let mut locals = args;
        for (n, t) in &func.locals {
            for _ in 0..*n {
                locals.push(Val::default_of(*t));
            }
        }
        let body = &func.body;
        let mut stack: Vec<Val> = vec![];
        let mut labels: Vec<Label> = vec![Label {
            is_loop: false,
            is_try: false,
            start: 0,
            end: body.len() - 1,
            height: 0,
            arity: results.len(),
        }];
        let mut pc = 0usize;
        // the next `end` executed is reached by a jump (else-less `if` with a false condition, end of a
        // then-arm), not by its body falling through
        let mut skip_fall = false;
        macro_rules! pop {
            () => {
                stack.pop().ok_or_else(|| Stop::Harness("stack underflow".into()))?
            };
        }
        macro_rules! pop_i32 {
            () => {
                match pop!() {
                    Val::I32(v) => v,
                    other => return Err(Stop::Harness(format!("expected i32, got {:?}", other))),
                }
            };
        }
        macro_rules! pop_i64 {
            () => {
                match pop!() {
                    Val::I64(v) => v,
                    other => return Err(Stop::Harness(format!("expected i64, got {:?}", other))),
                }
            };
        }
        loop {
            self.steps += 1;
            if self.steps > self.step_cap {
                return Err(Stop::Cap);
            }
            if pc >= body.len() {
                break;
            }
            let ins = &body[pc];
            let watched = !self.host.watch.is_empty() && self.host.watch.contains(&(li as u32, pc as u32));
            // an `if` whose condition is false does not "complete": control goes to its else-arm
            let mut skip_done = false;
            if watched {
                self.virt(V_EXEC, li, pc);
            }
            // branch helper: returns new pc or signals function return
            let mut branch_to: Option<u32> = None;
            match ins {
                Ins::Nop => {}
                Ins::Unreachable => return Err(Stop::Trap(Trap::Unreachable)),
                Ins::Throw(t) => match handler_depth(body, &labels, *t) {
                    Some(d) => branch_to = Some(d),
                    None => return Err(Stop::Thrown(*t)),
                },
                Ins::TryTable(bt, _) => {
                    let (p, r) = self.bt_arity(*bt).map_err(Stop::Harness)?;
                    let c = self.ctrl[li].iter().find(|c| c.0 == pc).ok_or_else(|| Stop::Harness("ctrl".into()))?;
                    labels.push(Label {
                        is_loop: false,
                        is_try: true,
                        start: pc,
                        end: c.2,
                        height: stack.len() - p,
                        arity: r,
                    });
                }
                Ins::Drop => {
                    pop!();
                }
                Ins::Select => {
                    let c = pop_i32!();
                    let b = pop!();
                    let a = pop!();
                    stack.push(if c != 0 { a } else { b });
                }
                Ins::Return => {
                    branch_to = Some(labels.len() as u32 - 1);
                }
                Ins::Block(bt) | Ins::Loop(bt) => {
                    let (p, r) = self.bt_arity(*bt).map_err(Stop::Harness)?;
                    let c = *self.ctrl[li].iter().find(|c| c.0 == pc).ok_or_else(|| Stop::Harness("ctrl".into()))?;
                    let is_loop = matches!(ins, Ins::Loop(_));
                    self.virt(V_ENTER, li, pc);
                    labels.push(Label {
                        is_loop,
                        is_try: false,
                        start: pc,
                        end: c.2,
                        height: stack.len() - p,
                        arity: if is_loop { p } else { r },
                    });
                }
                Ins::If(bt) => {
                    let cnd = pop_i32!();
                    let (p, r) = self.bt_arity(*bt).map_err(Stop::Harness)?;
                    let c = *self.ctrl[li].iter().find(|c| c.0 == pc).ok_or_else(|| Stop::Harness("ctrl".into()))?;
                    labels.push(Label {
                        is_loop: false,
                        is_try: false,
                        start: pc,
                        end: c.2,
                        height: stack.len() - p,
                        arity: r,
                    });
                    if cnd == 0 {
                        match c.1 {
                            Some(e) => {
                                self.virt(V_ENTER, li, e);
                                skip_done = true;
                                pc = e // continue after the else
                            }
                            None => {
                                // no else: skip to end (which pops the label); not a fall-through
                                skip_fall = true;
                                pc = c.2;
                                continue;
                            }
                        }
                    } else {
                        self.virt(V_ENTER, li, pc);
                    }
                }
                Ins::Else => {
                    // reached the end of the then-arm: jump to the end
                    let l = *labels.last().ok_or_else(|| Stop::Harness("else label".into()))?;
                    self.virt(V_FALL, li, pc);
                    skip_fall = true; // the `end` is reached from the then-arm, not by the else-arm falling through
                    pc = l.end;
                    continue;
                }
                Ins::End => {
                    if labels.len() == 1 {
                        break;
                    }
                    if !skip_fall {
                        self.virt(V_FALL, li, pc);
                    }
                    skip_fall = false;
                    self.virt(V_AFTER, li, pc);
                    labels.pop();
                }
                Ins::Br(d) => branch_to = Some(*d),
                Ins::BrIf(d) => {
                    if pop_i32!() != 0 {
                        branch_to = Some(*d);
                    }
                }
                Ins::BrTable(t, d) => {
                    let i = pop_i32!() as u32 as usize;
                    branch_to = Some(*t.get(i).unwrap_or(d));
                }
                Ins::BrOnNull(d) => match pop!() {
                    Val::Ref(None) => branch_to = Some(*d),
                    v => stack.push(v),
                },
                Ins::BrOnNonNull(d) => match pop!() {
                    Val::Ref(None) => {}
                    v => {
                        stack.push(v);
                        branch_to = Some(*d);
                    }
                },
                Ins::BrOnCast(d, _, to_null) | Ins::BrOnCastFail(d, _, to_null) => {
                    let v = pop!();
                    let ok = match v {
                        Val::Ref(None) => *to_null,
                        Val::Ref(Some(_)) => true,
                        other => return Err(Stop::Harness(format!("cast of {:?}", other))),
                    };
                    stack.push(v);
                    let on_success = matches!(ins, Ins::BrOnCast(..));
                    if ok == on_success {
                        branch_to = Some(*d);
                    }
                }
                Ins::Call(f) => {
                    let ty = m.func_type_of(*f).ok_or_else(|| Stop::Harness("call target".into()))?;
                    let (p, _) = self.sig(ty).map_err(Stop::Harness)?;
                    if stack.len() < p.len() {
                        return Err(Stop::Harness("call args".into()));
                    }
                    let args = stack.split_off(stack.len() - p.len());
                    match self.call(*f, args, depth + 1) {
                        Ok(r) => stack.extend(r),
                        // an exception coming out of the callee: caught here or passed on
                        Err(Stop::Thrown(t)) => match handler_depth(body, &labels, t) {
                            Some(d) => branch_to = Some(d),
                            None => return Err(Stop::Thrown(t)),
                        },
                        Err(e) => return Err(e),
                    }
                }
                Ins::ReturnCall(f) => {
                    let ty = m.func_type_of(*f).ok_or_else(|| Stop::Harness("call target".into()))?;
                    let (p, _) = self.sig(ty).map_err(Stop::Harness)?;
                    let args = stack.split_off(stack.len() - p.len());
                    // modelled as call + return (the trace shows the callee inside the caller)
                    let r = self.call(*f, args, depth + 1)?;
                    return Ok(r);
                }
                Ins::LocalGet(i) => stack.push(*locals.get(*i as usize).ok_or_else(|| Stop::Harness("local".into()))?),
                Ins::LocalSet(i) => {
                    let v = pop!();
                    *locals.get_mut(*i as usize).ok_or_else(|| Stop::Harness("local".into()))? = v;
                }
                Ins::LocalTee(i) => {
                    let v = *stack.last().ok_or_else(|| Stop::Harness("tee".into()))?;
                    *locals.get_mut(*i as usize).ok_or_else(|| Stop::Harness("local".into()))? = v;
                }
                Ins::GlobalGet(i) => stack.push(*self.globals.get(*i as usize).ok_or_else(|| Stop::Harness("global".into()))?),
                Ins::GlobalSet(i) => {
                    let v = pop!();
                    *self.globals.get_mut(*i as usize).ok_or_else(|| Stop::Harness("global".into()))? = v;
                }
                Ins::I32Const(v) => stack.push(Val::I32(*v)),
                Ins::I64Const(v) => stack.push(Val::I64(*v)),
                Ins::F32Const(v) => stack.push(Val::F32(*v)),
                Ins::F64Const(v) => stack.push(Val::F64(*v)),
                Ins::V128Const(v) => stack.push(Val::V128(*v)),
                Ins::RefNull(_) => stack.push(Val::Ref(None)),
                Ins::RefFunc(f) => stack.push(Val::Ref(Some(*f))),
                Ins::S(op) => {
                    use Simple::*;
                    match op {
                        I32Eqz => {
                            let a = pop_i32!();
                            stack.push(Val::I32((a == 0) as i32));
                        }
                        I64Eqz => {
                            let a = pop_i64!();
                            stack.push(Val::I32((a == 0) as i32));
                        }
                        I32Clz | I32Ctz | I32Popcnt | I32Extend8S | I32Extend16S => {
                            let a = pop_i32!();
                            stack.push(Val::I32(match op {
                                I32Clz => a.leading_zeros() as i32,
                                I32Ctz => a.trailing_zeros() as i32,
                                I32Popcnt => a.count_ones() as i32,
                                I32Extend8S => a as i8 as i32,
                                _ => a as i16 as i32,
                            }));
                        }
                        I64Clz | I64Ctz | I64Popcnt | I64Extend8S | I64Extend16S | I64Extend32S => {
                            let a = pop_i64!();
                            stack.push(Val::I64(match op {
                                I64Clz => a.leading_zeros() as i64,
                                I64Ctz => a.trailing_zeros() as i64,
                                I64Popcnt => a.count_ones() as i64,
                                I64Extend8S => a as i8 as i64,
                                I64Extend16S => a as i16 as i64,
                                _ => a as i32 as i64,
                            }));
                        }
                        I32WrapI64 => {
                            let a = pop_i64!();
                            stack.push(Val::I32(a as i32));
                        }
                        I64ExtendI32S => {
                            let a = pop_i32!();
                            stack.push(Val::I64(a as i64));
                        }
                        I64ExtendI32U => {
                            let a = pop_i32!();
                            stack.push(Val::I64(a as u32 as i64));
                        }
                        RefIsNull => {
                            let a = pop!();
                            stack.push(Val::I32(matches!(a, Val::Ref(None)) as i32));
                        }
                        I32Eq | I32Ne | I32LtS | I32LtU | I32GtS | I32GtU | I32LeS | I32LeU | I32GeS | I32GeU | I32Add
                        | I32Sub | I32Mul | I32DivS | I32DivU | I32RemS | I32RemU | I32And | I32Or | I32Xor | I32Shl
                        | I32ShrS | I32ShrU | I32Rotl | I32Rotr => {
                            let b = pop_i32!();
                            let a = pop_i32!();
                            let (ua, ub) = (a as u32, b as u32);
                            let r = match op {
                                I32Eq => (a == b) as i32,
                                I32Ne => (a != b) as i32,
                                I32LtS => (a < b) as i32,
                                I32LtU => (ua < ub) as i32,
                                I32GtS => (a > b) as i32,
                                I32GtU => (ua > ub) as i32,
                                I32LeS => (a <= b) as i32,
                                I32LeU => (ua <= ub) as i32,
                                I32GeS => (a >= b) as i32,
                                I32GeU => (ua >= ub) as i32,
                                I32Add => a.wrapping_add(b),
                                I32Sub => a.wrapping_sub(b),
                                I32Mul => a.wrapping_mul(b),
                                I32DivS => {
                                    if b == 0 {
                                        return Err(Stop::Trap(Trap::DivZero));
                                    }
                                    if a == i32::MIN && b == -1 {
                                        return Err(Stop::Trap(Trap::Overflow));
                                    }
                                    a.wrapping_div(b)
                                }
                                I32DivU => {
                                    if b == 0 {
                                        return Err(Stop::Trap(Trap::DivZero));
                                    }
                                    (ua / ub) as i32
                                }
                                I32RemS => {
                                    if b == 0 {
                                        return Err(Stop::Trap(Trap::DivZero));
                                    }
                                    a.wrapping_rem(b)
                                }
                                I32RemU => {
                                    if b == 0 {
                                        return Err(Stop::Trap(Trap::DivZero));
                                    }
                                    (ua % ub) as i32
                                }
                                I32And => a & b,
                                I32Or => a | b,
                                I32Xor => a ^ b,
                                I32Shl => a.wrapping_shl(ub),
                                I32ShrS => a.wrapping_shr(ub),
                                I32ShrU => ua.wrapping_shr(ub) as i32,
                                I32Rotl => ua.rotate_left(ub & 31) as i32,
                                _ => ua.rotate_right(ub & 31) as i32,
                            };
                            stack.push(Val::I32(r));
                        }
                        I64Eq | I64Ne | I64LtS | I64LtU | I64GtS | I64GtU | I64LeS | I64LeU | I64GeS | I64GeU => {
                            let b = pop_i64!();
                            let a = pop_i64!();
                            let (ua, ub) = (a as u64, b as u64);
                            stack.push(Val::I32(match op {
                                I64Eq => a == b,
                                I64Ne => a != b,
                                I64LtS => a < b,
                                I64LtU => ua < ub,
                                I64GtS => a > b,
                                I64GtU => ua > ub,
                                I64LeS => a <= b,
                                I64LeU => ua <= ub,
                                I64GeS => a >= b,
                                _ => ua >= ub,
                            } as i32));
                        }
                        I64Add | I64Sub | I64Mul | I64DivS | I64DivU | I64RemS | I64RemU | I64And | I64Or | I64Xor | I64Shl
                        | I64ShrS | I64ShrU | I64Rotl | I64Rotr => {
                            let b = pop_i64!();
                            let a = pop_i64!();
                            let (ua, ub) = (a as u64, b as u64);
                            let r = match op {
                                I64Add => a.wrapping_add(b),
                                I64Sub => a.wrapping_sub(b),
                                I64Mul => a.wrapping_mul(b),
                                I64DivS => {
                                    if b == 0 {
                                        return Err(Stop::Trap(Trap::DivZero));
                                    }
                                    if a == i64::MIN && b == -1 {
                                        return Err(Stop::Trap(Trap::Overflow));
                                    }
                                    a.wrapping_div(b)
                                }
                                I64DivU => {
                                    if b == 0 {
                                        return Err(Stop::Trap(Trap::DivZero));
                                    }
                                    (ua / ub) as i64
                                }
                                I64RemS => {
                                    if b == 0 {
                                        return Err(Stop::Trap(Trap::DivZero));
                                    }
                                    a.wrapping_rem(b)
                                }
                                I64RemU => {
                                    if b == 0 {
                                        return Err(Stop::Trap(Trap::DivZero));
                                    }
                                    (ua % ub) as i64
                                }
                                I64And => a & b,
                                I64Or => a | b,
                                I64Xor => a ^ b,
                                I64Shl => a.wrapping_shl(ub as u32),
                                I64ShrS => a.wrapping_shr(ub as u32),
                                I64ShrU => ua.wrapping_shr(ub as u32) as i64,
                                I64Rotl => ua.rotate_left((ub & 63) as u32) as i64,
                                _ => ua.rotate_right((ub & 63) as u32) as i64,
                            };
                            stack.push(Val::I64(r));
                        }
                        other => return Err(Stop::Harness(format!("unsupported simple op {:?}", other))),
                    }
                }
                Ins::Mem(op, ma) => {
                    let (shape, _, atomic) = op.info();
                    if atomic {
                        return Err(Stop::Harness("atomic op in executed program".into()));
                    }
                    let width = match op {
                        MemOp::I32Load | MemOp::I32Store | MemOp::I64Load32S | MemOp::I64Load32U | MemOp::I64Store32 => 4,
                        MemOp::I64Load | MemOp::I64Store => 8,
                        MemOp::I32Load8S | MemOp::I32Load8U | MemOp::I32Store8 | MemOp::I64Load8S | MemOp::I64Load8U | MemOp::I64Store8 => 1,
                        MemOp::I32Load16S | MemOp::I32Load16U | MemOp::I32Store16 | MemOp::I64Load16S | MemOp::I64Load16U | MemOp::I64Store16 => 2,
                        other => return Err(Stop::Harness(format!("unsupported mem op {:?}", other))),
                    };
                    let signed = matches!(
                        op,
                        MemOp::I32Load8S | MemOp::I32Load16S | MemOp::I64Load8S | MemOp::I64Load16S | MemOp::I64Load32S
                    );
                    match shape {
                        MemShape::Load(t) => {
                            let a = pop_i32!() as u32 as u64 + ma.offset;
                            let mem = self.mems.get(ma.mem as usize).ok_or_else(|| Stop::Harness("memory".into()))?;
                            if a + width as u64 > mem.len() as u64 {
                                return Err(Stop::Trap(Trap::Oob));
                            }
                            let mut buf = [0u8; 8];
                            buf[..width].copy_from_slice(&mem[a as usize..a as usize + width]);
                            let mut v = u64::from_le_bytes(buf);
                            if signed {
                                let sh = 64 - 8 * width as u32;
                                v = (((v << sh) as i64) >> sh) as u64;
                            }
                            stack.push(if t == VT::I32 { Val::I32(v as i32) } else { Val::I64(v as i64) });
                        }
                        MemShape::Store(t) => {
                            let v = if t == VT::I32 { pop_i32!() as u32 as u64 } else { pop_i64!() as u64 };
                            let a = pop_i32!() as u32 as u64 + ma.offset;
                            let mem = self.mems.get_mut(ma.mem as usize).ok_or_else(|| Stop::Harness("memory".into()))?;
                            if a + width as u64 > mem.len() as u64 {
                                return Err(Stop::Trap(Trap::Oob));
                            }
                            mem[a as usize..a as usize + width].copy_from_slice(&v.to_le_bytes()[..width]);
                        }
                        _ => return Err(Stop::Harness("mem shape".into())),
                    }
                }
                Ins::MemorySize(mm) => {
                    let n = self.mems.get(*mm as usize).ok_or_else(|| Stop::Harness("memory".into()))?.len() / 65536;
                    stack.push(Val::I32(n as i32));
                }
                Ins::MemoryGrow(mm) => {
                    let d = pop_i32!() as u32 as usize;
                    let mem = self.mems.get_mut(*mm as usize).ok_or_else(|| Stop::Harness("memory".into()))?;
                    let old = mem.len() / 65536;
                    if old + d > 4 {
                        stack.push(Val::I32(-1));
                    } else {
                        mem.resize((old + d) * 65536, 0);
                        stack.push(Val::I32(old as i32));
                    }
                }
                other => return Err(Stop::Harness(format!("unsupported instruction {:?}", other))),
            }
            if let Some(d) = branch_to {
                let d = d as usize;
                if d >= labels.len() {
                    return Err(Stop::Harness("branch depth".into()));
                }
                let target = labels[labels.len() - 1 - d];
                if stack.len() < target.arity {
                    return Err(Stop::Harness("branch arity".into()));
                }
                let vals = stack.split_off(stack.len() - target.arity);
                stack.truncate(target.height);
                stack.extend(vals);
                if d == labels.len() - 1 {
                    // the function label: return
                    break;
                }
                if target.is_loop {
                    self.virt(V_ENTER, li, target.start);
                    labels.truncate(labels.len() - d);
                    pc = target.start + 1;
                } else {
                    self.virt(V_AFTER, li, target.end);
                    labels.truncate(labels.len() - 1 - d);
                    pc = target.end + 1;
                }
                continue;
            }
            if watched && !skip_done {
                self.virt(V_DONE, li, pc);
            }
            pc += 1;
        }
        if stack.len() < results.len() {
            return Err(Stop::Harness(format!("function result stack {} < {}", stack.len(), results.len())));
        }
        Ok(stack.split_off(stack.len() - results.len()))
    }
}

pub struct RunOut {
    pub virt: Vec<(usize, u8, u32, u32)>,
    pub result: Result<Vec<Val>, Stop>,
    pub trace: Vec<Ev>,
    pub globals: Vec<Val>,
    pub mem_digest: u64,
    pub steps: u64,
}

/// Instantiate and call the exported function `export` with `args`.
pub fn run_export(m: &ModuleSpec, export: &str, args: Vec<Val>, tape: Vec<i32>, trap_at: Option<usize>, cap: u64) -> Result<RunOut, String> {
    run_export_virt(m, export, args, tape, trap_at, cap, false)
}

/// `virt` = also record the virtual control-flow events (`V_*`) of the executed program
pub fn run_export_virt(m: &ModuleSpec, export: &str, args: Vec<Val>, tape: Vec<i32>, trap_at: Option<usize>, cap: u64, virt: bool) -> Result<RunOut, String> {
    run_export_watch(m, export, args, tape, trap_at, cap, virt, vec![])
}

#[allow(clippy::too_many_arguments)]
pub fn run_export_watch(m: &ModuleSpec, export: &str, args: Vec<Val>, tape: Vec<i32>, trap_at: Option<usize>, cap: u64, virt: bool, watch: Vec<(u32, u32)>) -> Result<RunOut, String> {
    let mut inst = Instance::new(m, tape, trap_at, cap)?;
    if virt {
        inst.host.virt = Some(vec![]);
        inst.host.watch = watch;
    }
    let f = m
        .exports
        .iter()
        .find(|e| e.name == export && e.kind == ExtKind::Func)
        .map(|e| e.index)
        .ok_or_else(|| format!("no exported function {export}"))?;
    let result = inst.call(f, args, 0);
    let mut h: u64 = 0xcbf29ce484222325;
    for mem in &inst.mems {
        // only the first page is ever written by generated programs beyond data segments
        for b in mem.iter().take(65536) {
            h ^= *b as u64;
            h = h.wrapping_mul(0x100000001b3);
        }
    }
    Ok(RunOut {
        result,
        virt: inst.host.virt.take().unwrap_or_default(),
        trace: inst.host.trace,
        globals: inst.globals,
        mem_digest: h,
        steps: inst.steps,
    })
}

/// Hand-checked programs covering every supported opcode family, block-type shape and branch form.
pub fn selftest() -> Result<(), String> {
    let run = |wat: &str, export: &str, args: Vec<Val>, tape: Vec<i32>| -> Result<RunOut, String> {
        let bytes = wat::parse_str(wat).map_err(|e| e.to_string())?;
        validate(&bytes)?;
        let m = crate::decode::decode(&bytes)?;
        run_export(&m, export, args, tape, None, 100_000)
    };
    let imports = r#"(import "env" "mark" (func $mark (param i32))) (import "env" "probe" (func $probe (param i32)))
        (import "env" "choose" (func $choose (result i32))) (import "env" "sink" (func $sink (param i64)))"#;
    let expect = |name: &str, out: Result<RunOut, String>, res: Result<Vec<Val>, Trap>, marks: Vec<i32>| -> Result<(), String> {
        let out = out.map_err(|e| format!("{name}: {e}"))?;
        let got = match out.result {
            Ok(v) => Ok(v),
            Err(Stop::Trap(t)) => Err(t),
            Err(other) => return Err(format!("{name}: stopped {:?}", other)),
        };
        if got != res {
            return Err(format!("{name}: result {:?} expected {:?}", got, res));
        }
        let m: Vec<i32> = out.trace.iter().filter_map(|e| if let Ev::Mark(k) = e { Some(*k) } else { None }).collect();
        if m != marks {
            return Err(format!("{name}: marks {:?} expected {:?}", m, marks));
        }
        Ok(())
    };
    // arithmetic, locals, multi-value block, loop with counter, br_if, br_table to several depths
    let w1 = format!(
        r#"(module {imports} (type $t (func (result i32 i32)))
        (func (export "f") (param i32) (result i32) (local i32 i32)
          (local.set 1 (i32.const 3))
          (block $out
            (loop $l
              (call $mark (i32.const 1))
              (local.set 2 (i32.add (local.get 2) (local.get 0)))
              (local.tee 1 (i32.sub (local.get 1) (i32.const 1)))
              (br_if $l)
              (call $mark (i32.const 2))
              (br $out))
            (call $mark (i32.const 99)))
          (block (type $t) (i32.const 5) (i32.const 6))
          (i32.add) (local.get 2) (i32.add)))"#
    );
    expect("loop/multivalue", run(&w1, "f", vec![Val::I32(7)], vec![]), Ok(vec![Val::I32(32)]), vec![1, 1, 1, 2])?;
    let w2 = format!(
        r#"(module {imports}
        (func (export "f") (param i32) (result i32)
          (block $a (block $b (block $c
            (br_table $c $b $a $c (local.get 0)))
            (call $mark (i32.const 10)) (return (i32.const 100)))
            (call $mark (i32.const 20)) (return (i32.const 200)))
          (call $mark (i32.const 30)) (i32.const 300)))"#
    );
    expect("br_table 0", run(&w2, "f", vec![Val::I32(0)], vec![]), Ok(vec![Val::I32(100)]), vec![10])?;
    expect("br_table 1", run(&w2, "f", vec![Val::I32(1)], vec![]), Ok(vec![Val::I32(200)]), vec![20])?;
    expect("br_table 2", run(&w2, "f", vec![Val::I32(2)], vec![]), Ok(vec![Val::I32(300)]), vec![30])?;
    expect("br_table default", run(&w2, "f", vec![Val::I32(9)], vec![]), Ok(vec![Val::I32(100)]), vec![10])?;
    // if/else with result, choose tape, memory, globals, calls, traps
    let w3 = format!(
        r#"(module {imports} (memory 1) (global $g (mut i64) (i64.const 5))
        (func $callee (param i32) (result i32) (call $mark (i32.const 7)) (i32.mul (local.get 0) (i32.const 2)))
        (func (export "f") (param i32) (result i32)
          (i32.store offset=4 (i32.const 8) (i32.const 0x01020304))
          (if (result i32) (call $choose)
            (then (call $mark (i32.const 1)) (i32.load8_u offset=4 (i32.const 9)))
            (else (call $mark (i32.const 2)) (i32.load16_s offset=4 (i32.const 10))))
          (global.set $g (i64.add (global.get $g) (i64.extend_i32_s (local.get 0))))
          (call $sink (global.get $g))
          (call $callee)
          (i32.div_s (local.get 0))))"#
    );
    expect("if then", run(&w3, "f", vec![Val::I32(2)], vec![1]), Ok(vec![Val::I32(3)]), vec![1, 7])?;
    expect("if else", run(&w3, "f", vec![Val::I32(2)], vec![0]), Ok(vec![Val::I32(0x0102)]), vec![2, 7])?;
    expect("div zero", run(&w3, "f", vec![Val::I32(0)], vec![1]), Err(Trap::DivZero), vec![1, 7])?;
    let w4 = format!(
        r#"(module {imports} (memory 1)
        (func (export "f") (param i32) (result i32)
          (if (local.get 0) (then (call $mark (i32.const 1)) unreachable))
          (if (i32.eqz (local.get 0)) (then) (else (call $mark (i32.const 5))))
          (i32.load (i32.const 65533))))"#
    );
    expect("unreachable", run(&w4, "f", vec![Val::I32(1)], vec![]), Err(Trap::Unreachable), vec![1])?;
    expect("oob", run(&w4, "f", vec![Val::I32(0)], vec![]), Err(Trap::Oob), vec![])?;
    // branch to function label with value, br_if fallthrough keeps operand, select, i64 ops
    let w5 = format!(
        r#"(module {imports}
        (func (export "f") (param i32) (result i32)
          (block (i32.const 11) (br_if 1 (local.get 0)) (drop))
          (call $mark (i32.const 3))
          (select (i32.const 1) (i32.const 2) (i64.lt_u (i64.const -1) (i64.const 1)))))"#
    );
    expect("br_if func label", run(&w5, "f", vec![Val::I32(1)], vec![]), Ok(vec![Val::I32(11)]), vec![])?;
    expect("br_if fallthrough", run(&w5, "f", vec![Val::I32(0)], vec![]), Ok(vec![Val::I32(2)]), vec![3])?;
    // loop with parameters (function-type block), nested if in loop, br to loop with value
    let w6 = format!(
        r#"(module {imports} (type $lp (func (param i32) (result i32)))
        (func (export "f") (param i32) (result i32)
          (local.get 0)
          (loop $l (type $lp)
            (call $mark (i32.const 4))
            (i32.sub (i32.const 1))
            (local.tee 0)
            (local.get 0)
            (if (param i32) (result i32) (then (br $l)) (else))
          )))"#
    );
    expect("loop params", run(&w6, "f", vec![Val::I32(3)], vec![]), Ok(vec![Val::I32(0)]), vec![4, 4, 4])?;
    // reference branches (abstract func heap type)
    let w7 = format!(
        r#"(module {imports} (elem declare func $g)
        (func $g)
        (func (export "f") (param i32) (result i32)
          (block
            (if (result funcref) (local.get 0) (then (ref.func $g)) (else (ref.null func)))
            (br_on_null 0)
            (drop)
            (call $mark (i32.const 1)))
          (block (result funcref)
            (if (result funcref) (local.get 0) (then (ref.func $g)) (else (ref.null func)))
            (br_on_cast_fail 0 funcref (ref func))
            (call $mark (i32.const 2))
            (drop) (ref.null func))
          (drop)
          (block (result funcref)
            (if (result funcref) (local.get 0) (then (ref.func $g)) (else (ref.null func)))
            (br_on_cast 0 funcref funcref)
            (call $mark (i32.const 3))
            (drop) (ref.null func))
          (drop)
          (i32.const 9)))"#
    );
    expect("br_on non-null", run(&w7, "f", vec![Val::I32(1)], vec![]), Ok(vec![Val::I32(9)]), vec![1, 2])?;
    expect("br_on null", run(&w7, "f", vec![Val::I32(0)], vec![]), Ok(vec![Val::I32(9)]), vec![])?;
    // exceptions: throw caught by the enclosing try_table (catch / catch_all), by a try_table of the
    // caller, by an outer try_table when the inner one names another tag, and not at all
    let w8 = format!(
        r#"(module {imports} (tag $t) (tag $u)
        (func $thrower (param i32)
          (call $mark (i32.const 50))
          (if (local.get 0) (then (throw $t)))
          (call $mark (i32.const 51)))
        (func (export "f") (param i32) (result i32)
          (block $c
            (try_table (catch $t $c)
              (call $mark (i32.const 1))
              (if (i32.eq (local.get 0) (i32.const 1)) (then (throw $t)))
              (call $mark (i32.const 2))))
          (call $mark (i32.const 3))
          (block $d
            (try_table (catch_all $d)
              (call $thrower (i32.eq (local.get 0) (i32.const 2)))
              (call $mark (i32.const 4))))
          (call $mark (i32.const 5))
          (block $e
            (try_table (catch $t $e)
              (block $f
                (try_table (catch $u $f)
                  (if (i32.eq (local.get 0) (i32.const 3)) (then (throw $t)))
                  (call $mark (i32.const 6))))
              (call $mark (i32.const 7))))
          (call $mark (i32.const 8))
          (if (i32.eq (local.get 0) (i32.const 4)) (then (throw $u)))
          (i32.const 77)))"#
    );
    expect("no throw", run(&w8, "f", vec![Val::I32(0)], vec![]), Ok(vec![Val::I32(77)]), vec![1, 2, 3, 50, 51, 4, 5, 6, 7, 8])?;
    expect("caught by own try_table", run(&w8, "f", vec![Val::I32(1)], vec![]), Ok(vec![Val::I32(77)]), vec![1, 3, 50, 51, 4, 5, 6, 7, 8])?;
    expect("callee throws, caller catches", run(&w8, "f", vec![Val::I32(2)], vec![]), Ok(vec![Val::I32(77)]), vec![1, 2, 3, 50, 5, 6, 7, 8])?;
    expect("inner tag differs, outer catches", run(&w8, "f", vec![Val::I32(3)], vec![]), Ok(vec![Val::I32(77)]), vec![1, 2, 3, 50, 51, 4, 5, 8])?;
    expect("uncaught", run(&w8, "f", vec![Val::I32(4)], vec![]), Err(Trap::Exception), vec![1, 2, 3, 50, 51, 4, 5, 6, 7, 8])?;
    Ok(())
}
