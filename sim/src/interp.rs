//! Interpreter stub for executing emitted modules (C16-C20). Filled in below.
pub fn selftest() -> Result<(), String> {
    Ok(())
}
