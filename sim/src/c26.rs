//! C26 -- component iteration and injection refine module-level behaviour. Reference model = the
//! real `ModuleIterator` on a second parse of each core module (itself checked by C25).
use crate::checks::Judged;
use crate::exec::{guarded, PanicInfo, RunResult, Scenario, Tail, Visit};
use crate::gen::*;
use crate::ins::{encode_ins, read_ops, Ins};
use crate::model::*;
use crate::oracle::Mismatch;
use crate::rng::Rng;
use crate::spec::*;
use serde::{Deserialize, Serialize};
use std::collections::HashMap as StdHashMap;
use wasmparser::Operator;
use wirm::ir::id::{FunctionID, ModuleID};
use wirm::iterator::component_iterator::ComponentIterator;
use wirm::iterator::iterator_trait::{IteratingInstrumenter, Iterator as WIterator};
use wirm::iterator::module_iterator::ModuleIterator;
use wirm::module_builder::AddLocal;
use wirm::opcode::{Inject, InjectAt, Instrumenter};
use wirm::{Component, Location, Module};

#[derive(Clone, Debug, PartialEq, Eq, Serialize, Deserialize)]
pub enum Piece {
    Module(u32),
    Custom(Vec<u8>),
    /// a nested component holding copies of the given modules (not visited by the iterator)
    Nested(Vec<u32>),
}

#[derive(Clone, Debug, Default, PartialEq, Eq, Serialize, Deserialize)]
pub struct CompPlan {
    pub modules: Vec<ModuleSpec>,
    pub layout: Vec<Piece>,
    /// (module index in component order, skipped function ids)
    pub skip: Vec<(u32, Vec<u32>)>,
    /// (module index in component order, function, site, use inject_at instead of the cursor)
    pub sites: Vec<(u32, u32, Site, bool)>,
    /// when the cursor path calls `finish_instr`: 0 after every site, 1 after function-level sites
    /// only, 2 once per location after all of its sites, 3 never
    #[serde(default = "one")]
    pub finish: u8,
    /// calls made through the iterator when its cursor stands at (module in component order, function,
    /// instruction): `add_local` of a type (true) or `add_global` of an i32 constant (false, value)
    #[serde(default)]
    pub extras: Vec<(u32, u32, u32, bool, crate::ins::VT, i32)>,
    /// made before any iterator exists, through the component-level entry points on one side
    /// (`FunctionBuilder::finish_component`, `Component::add_globals`) and the module-level ones on
    /// the other: (module in component order, kind, fingerprint or value, argument); kind 0 = add a
    /// global of that value, 1 = build a function (argument = signature selector), 2 = replace the
    /// function import with that ImportsID by a built body (same call on both sides; what differs
    /// afterwards is which iterator walks the module)
    #[serde(default)]
    pub pre: Vec<(u32, u8, i64, u32)>,
    /// indices into `sites` of the sites that are not made where the cursor stands but through the
    /// explicit-location calls (`<mode>_at(loc)` + `add_instr_at(loc, op)`) at the very first position of
    /// the walk, i.e. (in a component) usually while the cursor is in ANOTHER module
    #[serde(default)]
    pub far: Vec<u32>,
    /// the component iterator first takes this many steps, is `reset()`, and only then does the walk that
    /// is compared (0 = no pre-walk; the per-module reference iterators are always fresh)
    #[serde(default)]
    pub prewalk: u32,
    /// modules (indices into `modules`) that are not part of the component's bytes: they are parsed on
    /// their own and handed to `Component::add_module` right after the component is parsed, before
    /// anything else happens; in module order they come after the modules of the layout
    #[serde(default)]
    pub added: Vec<u32>,
}

/// (params, results) of the function import `imp` of `m` if a body of constants can be built for it
fn import_sig(m: &ModuleSpec, imp: u32) -> Option<(Vec<crate::ins::VT>, Vec<crate::ins::VT>)> {
    use crate::ins::VT;
    match m.imports.get(imp as usize)?.kind {
        ImpKind::Func(t) => match &m.flat_types().get(t as usize)?.comp {
            Comp::Func(p, r) if r.iter().all(|t| matches!(t, VT::I32 | VT::I64 | VT::F32 | VT::F64)) => Some((p.clone(), r.clone())),
            _ => None,
        },
        _ => None,
    }
}

fn replace_builder<'a>(magic: i64, p: &[crate::ins::VT], r: &[crate::ins::VT]) -> wirm::ir::function::FunctionBuilder<'a> {
    use crate::ins::VT;
    use wirm::opcode::Opcode;
    let pd: Vec<_> = p.iter().map(|t| t.data_type()).collect();
    let rd: Vec<_> = r.iter().map(|t| t.data_type()).collect();
    let mut fb = wirm::ir::function::FunctionBuilder::new(&pd, &rd);
    fb.i64_const(magic);
    fb.drop();
    for t in r {
        match t {
            VT::I32 => fb.i32_const(0),
            VT::I64 => fb.i64_const(0),
            VT::F32 => fb.f32_const(0.0),
            _ => fb.f64_const(0.0),
        };
    }
    fb
}

fn pre_builder<'a>(magic: i64, sig: u8) -> wirm::ir::function::FunctionBuilder<'a> {
    use wirm::ir::types::DataType as D;
    use wirm::opcode::Opcode;
    let (p, r): (Vec<D>, Vec<D>) = match sig % 3 {
        0 => (vec![], vec![]),
        1 => (vec![D::I32], vec![D::I32]),
        _ => (vec![D::I32, D::I64], vec![]),
    };
    let mut fb = wirm::ir::function::FunctionBuilder::new(&p, &r);
    fb.i64_const(magic);
    fb.drop();
    if sig % 3 == 1 {
        fb.i32_const(7);
    }
    fb
}

fn one() -> u8 {
    1
}

fn leb(mut v: u64, out: &mut Vec<u8>) {
    loop {
        let b = (v & 0x7f) as u8;
        v >>= 7;
        if v == 0 {
            out.push(b);
            break;
        }
        out.push(b | 0x80);
    }
}
fn section(id: u8, payload: &[u8], out: &mut Vec<u8>) {
    out.push(id);
    leb(payload.len() as u64, out);
    out.extend_from_slice(payload);
}

impl CompPlan {
    /// module specs in the order the component iterator numbers them
    pub fn module_order(&self) -> Vec<u32> {
        self.layout.iter().filter_map(|p| if let Piece::Module(i) = p { Some(*i) } else { None }).chain(self.added.iter().copied()).collect()
    }
    pub fn to_bytes(&self) -> Vec<u8> {
        let mut out = crate::c03::COMPONENT_HEADER.to_vec();
        for p in &self.layout {
            match p {
                Piece::Module(i) => section(1, &self.modules[*i as usize].to_bytes(), &mut out),
                Piece::Custom(d) => {
                    let mut pl = vec![];
                    leb(3, &mut pl);
                    pl.extend_from_slice(b"cst");
                    pl.extend_from_slice(d);
                    section(0, &pl, &mut out);
                }
                Piece::Nested(ms) => {
                    let mut inner = crate::c03::COMPONENT_HEADER.to_vec();
                    for i in ms {
                        section(1, &self.modules[*i as usize].to_bytes(), &mut inner);
                    }
                    section(4, &inner, &mut out);
                }
            }
        }
        out
    }
}

pub fn c26_profile() -> Profile {
    let mut p = Profile::base("component");
    p.max_local_funcs = 4;
    p.min_local_funcs = 0;
    p.max_imp_funcs = 2;
    p
}

pub fn gen_c26(run_seed: u64) -> Result<Scenario, String> {
    gen_c26_for("C26", run_seed)
}

pub fn gen_c26_for(property: &str, run_seed: u64) -> Result<Scenario, String> {
    let mut rng = Rng::new(run_seed);
    let p = c26_profile();
    let mut st = GenState::new();
    let n_mod = rng.range(1, 4);
    let mut plan = CompPlan::default();
    for _ in 0..n_mod {
        let m = gen_base(&mut rng, &p, &mut st);
        validate(&m.to_bytes()).map_err(|e| format!("generated module does not validate: {e}"))?;
        plan.modules.push(m);
    }
    // layout: every module once in order, with other pieces in between
    for i in 0..n_mod as u32 {
        if rng.chance(1, 3) {
            // a run of one or two custom sections
            plan.layout.push(Piece::Custom(rng.bytes(3)));
            if rng.chance(1, 3) {
                plan.layout.push(Piece::Custom(rng.bytes(3)));
            }
        }
        if rng.chance(1, 5) {
            plan.layout.push(Piece::Nested(vec![rng.below(n_mod) as u32]));
        }
        plan.layout.push(Piece::Module(i));
    }
    if rng.chance(1, 3) {
        plan.layout.push(Piece::Custom(rng.bytes(3)));
    }
    if rng.chance(1, 4) {
        // one or two modules that join the component through add_module (behind whatever the layout ends in)
        for _ in 0..rng.range(1, 3) {
            let m = gen_base(&mut rng, &p, &mut st);
            validate(&m.to_bytes()).map_err(|e| format!("generated module does not validate: {e}"))?;
            plan.added.push(plan.modules.len() as u32);
            plan.modules.push(m);
        }
    }
    let order = plan.module_order();
    // skip map
    for (k, mi) in order.iter().enumerate() {
        let m = &plan.modules[*mi as usize];
        let n = m.num_funcs();
        let locals: Vec<u32> = (m.num_imp_funcs()..n).collect();
        if rng.chance(1, 2) {
            let skip: Vec<u32> = match rng.below(5) {
                0 => locals.clone(),
                1 => locals.iter().take(rng.below(locals.len() + 1)).copied().collect(),
                2 => locals.iter().rev().take(rng.below(locals.len() + 1)).copied().collect(),
                3 => vec![],
                _ => (0..n).filter(|_| rng.chance(1, 2)).collect(),
            };
            plan.skip.push((k as u32, skip));
        }
    }
    // injection sites in non-skipped local functions
    let n_sites = rng.range(0, 5);
    for _ in 0..n_sites {
        let k = rng.below(order.len());
        let m = &plan.modules[order[k] as usize];
        let skipped: Vec<u32> = plan.skip.iter().find(|(i, _)| *i == k as u32).map(|(_, s)| s.clone()).unwrap_or_default();
        let cands: Vec<u32> = (m.num_imp_funcs()..m.num_funcs()).filter(|f| !skipped.contains(f)).collect();
        let func = match rng.pick_opt(&cands) {
            Some(f) => *f,
            None => continue,
        };
        let body = &m.funcs[(func - m.num_imp_funcs()) as usize].body;
        let mode = *rng.pick(&[
            Mode::Before,
            Mode::After,
            Mode::Before,
            Mode::After,
            Mode::BlockEntry,
            Mode::BlockExit,
            Mode::FuncEntry,
            Mode::FuncExit,
            Mode::SemanticAfter,
            // replacements and removals of plain instructions (the encodings are compared, not validated)
            Mode::Alternate,
            Mode::EmptyAlternate,
        ]);
        let idxs: Vec<u32> = (2..body.len() as u32)
            .filter(|i| {
                let ins = &body[*i as usize];
                let last = *i as usize + 1 == body.len();
                match mode {
                    Mode::Before => true,
                    Mode::After => !last,
                    Mode::Alternate | Mode::EmptyAlternate => !last && !ins.is_block_style() && !matches!(ins, Ins::End | Ins::Else),
                    Mode::BlockEntry | Mode::BlockExit => ins.is_block_style(),
                    Mode::SemanticAfter => ins.is_block_style() && !matches!(ins, Ins::Loop(_)),
                    _ => false,
                }
            })
            .collect();
        let instr = if matches!(mode, Mode::FuncEntry | Mode::FuncExit) {
            // a function-level mode can be selected wherever the cursor stands
            if rng.chance(1, 2) {
                0
            } else {
                rng.below(body.len()) as u32
            }
        } else {
            match rng.pick_opt(&idxs) {
                Some(i) => *i,
                None => continue,
            }
        };
        let magic = st.probe_magic();
        let site = Site {
            instr,
            mode,
            body: if mode == Mode::EmptyAlternate { vec![] } else { vec![Ins::I32Const(magic), Ins::Drop] },
            magic: if mode == Mode::EmptyAlternate { 0 } else { magic },
            tag: None,
            clear: false,
        };
        // one replacement / removal per instruction
        if matches!(mode, Mode::Alternate | Mode::EmptyAlternate)
            && plan.sites.iter().any(|(k2, f2, s2, _)| *k2 == k as u32 && *f2 == func && s2.instr == instr && matches!(s2.mode, Mode::Alternate | Mode::EmptyAlternate))
        {
            continue;
        }
        let use_inject_at = rng.chance(1, 3) && !matches!(mode, Mode::FuncEntry | Mode::FuncExit | Mode::EmptyAlternate);
        if !use_inject_at && !matches!(mode, Mode::FuncEntry | Mode::FuncExit) && rng.chance(1, 4) {
            plan.far.push(plan.sites.len() as u32);
        }
        plan.sites.push((k as u32, func, site, use_inject_at));
    }
    for _ in 0..rng.below(4) {
        let k = rng.below(order.len());
        let m = &plan.modules[order[k] as usize];
        let skipped: Vec<u32> = plan.skip.iter().find(|(i, _)| *i == k as u32).map(|(_, s)| s.clone()).unwrap_or_default();
        let cands: Vec<u32> = (m.num_imp_funcs()..m.num_funcs()).filter(|f| !skipped.contains(f)).collect();
        if let Some(func) = rng.pick_opt(&cands) {
            let body = &m.funcs[(*func - m.num_imp_funcs()) as usize].body;
            let at = rng.below(body.len()) as u32;
            let ty = *rng.pick(&[crate::ins::VT::I32, crate::ins::VT::I64, crate::ins::VT::F32, crate::ins::VT::F64]);
            plan.extras.push((k as u32, *func, at, rng.chance(2, 3), ty, rng.below(1000) as i32));
        }
    }
    for _ in 0..rng.below(3) {
        let k = rng.below(order.len()) as u32;
        let m = &plan.modules[order[k as usize] as usize];
        let repl: Vec<u32> = (0..m.imports.len() as u32).filter(|i| import_sig(m, *i).is_some() && !plan.pre.iter().any(|p| p.0 == k && p.1 == 2 && p.3 == *i)).collect();
        match rng.below(3) {
            0 => plan.pre.push((k, 0, rng.below(100_000) as i64, 0)),
            1 => plan.pre.push((k, 1, st.func_magic(), rng.below(3) as u32)),
            _ => {
                if let Some(i) = rng.pick_opt(&repl) {
                    plan.pre.push((k, 2, st.func_magic(), *i));
                }
            }
        }
    }
    plan.finish = *rng.pick(&[0u8, 1, 1, 2, 2, 2, 3]);
    if rng.chance(1, 3) {
        // a partial or complete walk before reset(): the cursor is then usually in a later module
        plan.prewalk = if rng.chance(1, 3) { 100_000 } else { 1 + rng.below(60) as u32 };
    }
    let hash_seed = rng.next();
    Ok(Scenario {
        property: property.into(),
        profile: "component".into(),
        seed: run_seed,
        hash_seed,
        tail: vec![Tail::Encode],
        scheduler: "none".into(),
        comp: Some(plan),
        ..Default::default()
    })
}

type CVisit = (u32, u32, u32, bool, Ins);

fn imode(m: Mode) -> wirm::ir::types::InstrumentationMode {
    use wirm::ir::types::InstrumentationMode as I;
    match m {
        Mode::Before => I::Before,
        Mode::After => I::After,
        Mode::Alternate => I::Alternate,
        Mode::SemanticAfter => I::SemanticAfter,
        Mode::BlockEntry => I::BlockEntry,
        Mode::BlockExit => I::BlockExit,
        _ => I::BlockAlt,
    }
}

fn set_mode<'a, T: IteratingInstrumenter<'a>>(it: &mut T, m: Mode) {
    match m {
        Mode::Before => {
            it.before();
        }
        Mode::After => {
            it.after();
        }
        Mode::SemanticAfter => {
            it.semantic_after();
        }
        Mode::BlockEntry => {
            it.block_entry();
        }
        Mode::BlockExit => {
            it.block_exit();
        }
        Mode::FuncEntry => {
            it.func_entry();
        }
        Mode::FuncExit => {
            it.func_exit();
        }
        Mode::Alternate => {
            it.alternate();
        }
        Mode::EmptyAlternate => {
            it.empty_alternate();
        }
        _ => {}
    }
}

pub fn extract_modules(comp_bytes: &[u8]) -> Result<Vec<Vec<u8>>, String> {
    let mut v = vec![];
    let mut depth = 0;
    for p in wasmparser::Parser::new(0).parse_all(comp_bytes) {
        match p.map_err(|e| e.to_string())? {
            wasmparser::Payload::ModuleSection { unchecked_range, .. } => {
                if depth == 0 {
                    v.push(comp_bytes.get(unchecked_range).ok_or("module range")?.to_vec());
                }
                depth += 1;
            }
            wasmparser::Payload::ComponentSection { .. } => depth += 1,
            wasmparser::Payload::End(_) => {
                if depth > 0 {
                    depth -= 1;
                }
            }
            _ => {}
        }
    }
    Ok(v)
}

/// data of the `cst` custom sections at the top level of a component, in order
fn top_level_customs(comp_bytes: &[u8]) -> Vec<Vec<u8>> {
    let mut v = vec![];
    let mut depth = 0;
    for p in wasmparser::Parser::new(0).parse_all(comp_bytes) {
        match p {
            Ok(wasmparser::Payload::ModuleSection { .. }) | Ok(wasmparser::Payload::ComponentSection { .. }) => depth += 1,
            Ok(wasmparser::Payload::End(_)) => {
                if depth > 0 {
                    depth -= 1;
                }
            }
            Ok(wasmparser::Payload::CustomSection(c)) if depth == 0 && c.name() == "cst" => v.push(c.data().to_vec()),
            Err(_) => break,
            _ => {}
        }
    }
    v
}

pub fn judge_c26(sc: &Scenario) -> (Judged, RunResult) {
    let mut out = String::new();
    judge_c26_out(sc, &mut out)
}

/// What the component side of a plan produced under the current hash keys, as one line
/// (`bytes <hex>` / `panic <signature>` / `none`): the outcome C04 compares across hash seeds and
/// across fresh processes of the unhooked build.
pub fn comp_outcome(sc: &Scenario) -> String {
    let mut out = String::new();
    let (j, _) = judge_c26_out(sc, &mut out);
    match j.harness_error {
        Some(e) => format!("harness {e}"),
        None if out.is_empty() => "none".into(),
        None => out,
    }
}

fn judge_c26_out(sc: &Scenario, out: &mut String) -> (Judged, RunResult) {
    let dummy = crate::exec::run(&Scenario {
        tail: vec![],
        ..Default::default()
    });
    let mut owned = vec![];
    let mut customs_mm: Vec<Mismatch> = vec![];
    let plan = match &sc.comp {
        Some(p) => p,
        None => {
            return (
                Judged {
                    owned,
                    others: vec![],
                    harness_error: Some("C26 scenario without component plan".into()),
                },
                dummy,
            )
        }
    };
    crate::hseam::set_hash_seed(sc.hash_seed);
    let comp_bytes = plan.to_bytes();
    let order = plan.module_order();
    let mod_bytes: Vec<Vec<u8>> = order.iter().map(|i| plan.modules[*i as usize].to_bytes()).collect();
    // lowered probe bodies (one arena for both executions)
    let mut arena = vec![];
    let mut ranges = vec![];
    for (_, _, s, _) in &plan.sites {
        let a = arena.len();
        encode_ins(&s.body, &mut arena);
        ranges.push((a, arena.len()));
    }
    let skip_of = |k: u32| -> Vec<u32> { plan.skip.iter().find(|(i, _)| *i == k).map(|(_, s)| s.clone()).unwrap_or_default() };
    let herr = |e: String| -> (Judged, RunResult) {
        (
            Judged {
                owned: vec![],
                others: vec![],
                harness_error: Some(e),
            },
            crate::exec::run(&Scenario {
                tail: vec![],
                ..Default::default()
            }),
        )
    };
    // ---------------- twin: per-module iterators
    let mut twin_traj: Vec<CVisit> = vec![];
    let mut twin_bytes: Vec<Result<Vec<u8>, PanicInfo>> = vec![];
    let mut pre_ids_twin: Vec<Option<u32>> = vec![];
    for (k, b) in mod_bytes.iter().enumerate() {
        let mut module = match Module::parse(b, false) {
            Ok(m) => m,
            Err(e) => return herr(format!("library refused generated module: {e}")),
        };
        let skip: Vec<FunctionID> = skip_of(k as u32).iter().map(|f| FunctionID(*f)).collect();
        for (pk, kind, v, arg) in &plan.pre {
            if *pk as usize == k {
                let spec = &plan.modules[order[k] as usize];
                let r = guarded(|| match kind {
                    1 => *pre_builder(*v, *arg as u8).finish_module(&mut module),
                    2 => {
                        let (p, r) = import_sig(spec, *arg).expect("harness: replace target");
                        replace_builder(*v, &p, &r).replace_import_in_module(&mut module, wirm::ir::id::ImportsID(*arg));
                        0
                    }
                    _ => *module.add_global(ConstE::I32(*v as i32).to_init(), wirm::ir::types::DataType::I32, false, false),
                });
                match r {
                    Ok(id) => pre_ids_twin.push(Some(id)),
                    Err(_) => pre_ids_twin.push(None),
                }
            }
        }
        let has_visit = {
            let m = &plan.modules[order[k] as usize];
            (m.num_imp_funcs()..m.num_funcs()).any(|f| !skip.contains(&FunctionID(f)))
                || plan.pre.iter().any(|p| {
                    p.0 as usize == k
                        && match p.1 {
                            1 => true,
                            // the replaced import's function ID = its rank among the function imports
                            2 => {
                                let fid = m.imports[..p.3 as usize].iter().filter(|i| matches!(i.kind, ImpKind::Func(_))).count() as u32;
                                !skip.contains(&FunctionID(fid))
                            }
                            _ => false,
                        }
                })
        };
        let r = guarded(|| {
            let mut traj: Vec<CVisit> = vec![];
            if has_visit {
                let mut it = ModuleIterator::new(&mut module, &skip);
                loop {
                    if let (Location::Module { func_idx, instr_idx }, is_end) = it.curr_loc() {
                        let op = it.curr_op().map(Ins::from_op).unwrap_or(Ins::Unknown("none".into()));
                        // injections at this position
                        let mut pending_finish = false;
                        if traj.is_empty() {
                            for si in &plan.far {
                                let (mk, f, s, _) = &plan.sites[*si as usize];
                                if *mk as usize == k {
                                    let loc = Location::Module { func_idx: FunctionID(*f), instr_idx: s.instr as usize };
                                    crate::exec::set_mode_at(&mut it, s.mode, loc);
                                    for op in read_ops(&arena[ranges[*si as usize].0..ranges[*si as usize].1]) {
                                        it.add_instr_at(loc, op);
                                    }
                                }
                            }
                        }
                        for (si, (mk, f, s, at)) in plan.sites.iter().enumerate() {
                            if plan.far.contains(&(si as u32)) {
                                continue;
                            }
                            if *mk as usize == k && *f == *func_idx {
                                let ops: Vec<Operator> = read_ops(&arena[ranges[si].0..ranges[si].1]);
                                if *at {
                                    if instr_idx == 0 {
                                        for op in ops {
                                            it.inject_at(s.instr as usize, imode(s.mode), op);
                                        }
                                    }
                                } else if s.instr as usize == instr_idx {
                                    set_mode(&mut it, s.mode);
                                    for op in ops {
                                        it.inject(op);
                                    }
                                    let fl = matches!(s.mode, Mode::FuncEntry | Mode::FuncExit);
                                    if plan.finish == 0 || (plan.finish == 1 && fl) {
                                        it.finish_instr();
                                    } else if plan.finish == 2 {
                                        pending_finish = true;
                                    }
                                }
                            }
                        }
                        if pending_finish {
                            it.finish_instr();
                        }
                        let (fx, ix) = (*func_idx, instr_idx as u32);
                        traj.push((k as u32, fx, ix, is_end, op));
                        for (mk, f, at, is_local, ty, val) in &plan.extras {
                            if *mk as usize == k && *f == fx && *at == ix {
                                let id = if *is_local {
                                    *it.add_local(ty.data_type())
                                } else {
                                    *it.add_global(crate::exec::make_global(&ConstE::I32(*val), crate::ins::VT::I32, false))
                                };
                                traj.push((k as u32, fx, ix, true, Ins::Unknown(format!("{} -> {id}", if *is_local { "add_local" } else { "add_global" }))));
                            }
                        }
                    }
                    if it.next().is_none() || traj.len() > 100_000 {
                        break;
                    }
                }
            }
            (traj, module.encode())
        });
        match r {
            Ok((t, b)) => {
                twin_traj.extend(t);
                twin_bytes.push(Ok(b));
            }
            Err(p) => return herr(format!("module-level twin panicked (C25/C15 territory): {}", p.sig())),
        }
    }
    // ---------------- component iterator
    let mut comp = match guarded(|| Component::parse(&comp_bytes, false)) {
        Ok(Ok(c)) => c,
        Ok(Err(e)) => return herr(format!("library refused generated component: {e}")),
        Err(p) => return herr(format!("component parse panicked: {}", p.sig())),
    };
    if comp.modules.len() + plan.added.len() != order.len() {
        return herr(format!("component has {} modules, expected {}", comp.modules.len(), order.len() - plan.added.len()));
    }
    for k in order.len() - plan.added.len()..order.len() {
        let m = match Module::parse(&mod_bytes[k], false) {
            Ok(m) => m,
            Err(e) => return herr(format!("library refused generated module: {e}")),
        };
        if let Err(p) = guarded(|| comp.add_module(m)) {
            owned.push(Mismatch::new("comp_iterator_panic", &format!("add_module:{}", p.sig()), format!("{:?}", p)));
            return (Judged { owned, others: vec![], harness_error: None }, dummy);
        }
    }
    {
        // the same pre-ops through the component-level entry points, module by module as on the twin side
        let mut pre_ids_comp: Vec<Option<u32>> = vec![];
        for k in 0..order.len() {
            for (pk, kind, v, arg) in &plan.pre {
                if *pk as usize == k {
                    let spec = &plan.modules[order[k] as usize];
                    let r = guarded(|| match kind {
                        1 => *pre_builder(*v, *arg as u8).finish_component(&mut comp, ModuleID(k as u32)),
                        2 => {
                            let (p, r) = import_sig(spec, *arg).expect("harness: replace target");
                            replace_builder(*v, &p, &r).replace_import_in_module(&mut comp.modules[k], wirm::ir::id::ImportsID(*arg));
                            0
                        }
                        _ => *comp.add_globals(crate::exec::make_global(&ConstE::I32(*v as i32), crate::ins::VT::I32, false), k),
                    });
                    pre_ids_comp.push(r.ok());
                }
            }
        }
        if pre_ids_comp != pre_ids_twin {
            owned.push(Mismatch::new(
                "comp_vs_module_bytes",
                "pre_op_id",
                format!("IDs returned by finish_component / add_globals {:?} differ from finish_module / add_global {:?} (plan {:?})", pre_ids_comp, pre_ids_twin, plan.pre),
            ));
        }
    }
    let mut skip_map: StdHashMap<ModuleID, Vec<FunctionID>> = StdHashMap::new();
    for (k, s) in &plan.skip {
        skip_map.insert(ModuleID(*k), s.iter().map(|f| FunctionID(*f)).collect());
    }
    let any_visit = !twin_traj.is_empty();
    let r = guarded(|| {
        let mut traj: Vec<CVisit> = vec![];
        let mut sm = crate::hseam::LibMap::new();
        for (k, v) in skip_map.iter() {
            sm.insert(*k, v.clone());
        }
        let mut it = ComponentIterator::new(&mut comp, sm);
        if plan.prewalk > 0 && any_visit {
            for _ in 0..plan.prewalk {
                if it.next().is_none() {
                    break;
                }
            }
            it.reset();
        }
        if !any_visit {
            let mut n = 0;
            while it.next().is_some() && n < 1000 {
                n += 1;
            }
            return (0..n).map(|i| (u32::MAX, 0, i, false, Ins::Nop)).collect();
        }
        loop {
            if let (Location::Component { mod_idx, func_idx, instr_idx }, is_end) = it.curr_loc() {
                let op = it.curr_op().map(Ins::from_op).unwrap_or(Ins::Unknown("none".into()));
                let mut pending_finish = false;
                if traj.is_empty() {
                    for si in &plan.far {
                        let (mk, f, s, _) = &plan.sites[*si as usize];
                        let loc = Location::Component { mod_idx: ModuleID(*mk), func_idx: FunctionID(*f), instr_idx: s.instr as usize };
                        crate::exec::set_mode_at(&mut it, s.mode, loc);
                        for op in read_ops(&arena[ranges[*si as usize].0..ranges[*si as usize].1]) {
                            it.add_instr_at(loc, op);
                        }
                    }
                }
                for (si, (mk, f, s, at)) in plan.sites.iter().enumerate() {
                    if plan.far.contains(&(si as u32)) {
                        continue;
                    }
                    if *mk == *mod_idx && *f == *func_idx {
                        let ops: Vec<Operator> = read_ops(&arena[ranges[si].0..ranges[si].1]);
                        if *at {
                            if instr_idx == 0 {
                                for op in ops {
                                    it.inject_at(s.instr as usize, imode(s.mode), op);
                                }
                            }
                        } else if s.instr as usize == instr_idx {
                            set_mode(&mut it, s.mode);
                            for op in ops {
                                it.inject(op);
                            }
                            let fl = matches!(s.mode, Mode::FuncEntry | Mode::FuncExit);
                            if plan.finish == 0 || (plan.finish == 1 && fl) {
                                it.finish_instr();
                            } else if plan.finish == 2 {
                                pending_finish = true;
                            }
                        }
                    }
                }
                if pending_finish {
                    it.finish_instr();
                }
                let (mx, fx, ix) = (*mod_idx, *func_idx, instr_idx as u32);
                traj.push((mx, fx, ix, is_end, op));
                for (mk, f, at, is_local, ty, val) in &plan.extras {
                    if *mk == mx && *f == fx && *at == ix {
                        let id = if *is_local {
                            *it.add_local(ty.data_type())
                        } else {
                            *it.add_global(crate::exec::make_global(&ConstE::I32(*val), crate::ins::VT::I32, false))
                        };
                        traj.push((mx, fx, ix, true, Ins::Unknown(format!("{} -> {id}", if *is_local { "add_local" } else { "add_global" }))));
                    }
                }
            }
            if it.next().is_none() || traj.len() > 100_000 {
                break;
            }
        }
        traj
    });
    let comp_traj = match r {
        Ok(t) => t,
        Err(p) => {
            let shape = if any_visit {
                if twin_bytes.len() > 1 && plan.modules.iter().any(|m| m.funcs.is_empty()) {
                    "a_module_without_local_functions"
                } else {
                    "walk"
                }
            } else {
                "nothing_to_visit"
            };
            *out = format!("panic {}", p.sig());
            owned.push(Mismatch::new("comp_iterator_panic", &format!("{shape}:{}", p.sig()), format!("{:?}", p)));
            return (
                Judged {
                    owned,
                    others: vec![],
                    harness_error: None,
                },
                dummy,
            );
        }
    };
    if comp_traj != twin_traj {
        let k = comp_traj.iter().zip(twin_traj.iter()).position(|(a, b)| a != b).unwrap_or(comp_traj.len().min(twin_traj.len()));
        let class = match (comp_traj.get(k), twin_traj.get(k)) {
            (None, Some(_)) => "stops_early",
            (Some(_), None) => "visits_too_much",
            (Some(a), Some(b)) if a.0 != b.0 => "module",
            (Some(a), Some(b)) if a.1 != b.1 || a.2 != b.2 => "location",
            (Some(a), Some(b)) if a.3 != b.3 => "end_flag",
            _ => "instruction",
        };
        owned.push(Mismatch::new(
            "comp_iterator_trajectory",
            class,
            format!("position {k}: component iterator {:?}, module iterators {:?} ({} vs {} positions; skip {:?})", comp_traj.get(k), twin_traj.get(k), comp_traj.len(), twin_traj.len(), plan.skip),
        ));
    }
    // ---------------- encodings
    let enc = guarded(|| comp.encode());
    *out = match &enc {
        Err(p) => format!("panic {}", p.sig()),
        Ok(b) => {
            let mut s = String::with_capacity(6 + 2 * b.len());
            s.push_str("bytes ");
            for x in b {
                s.push_str(&format!("{:02x}", x));
            }
            s
        }
    };
    match enc {
        Err(p) => owned.push(Mismatch::new("comp_vs_module_bytes", &format!("encode_panic:{}", p.sig()), format!("{:?}", p))),
        Ok(bytes) => match extract_modules(&bytes) {
            Err(e) => owned.push(Mismatch::new("comp_vs_module_bytes", "unparseable", e)),
            Ok(_) if {
                // the component's own custom sections (C28): names, contents and order as in the input
                let want: Vec<Vec<u8>> = plan.layout.iter().filter_map(|p| if let Piece::Custom(d) = p { Some(d.clone()) } else { None }).collect();
                let got = top_level_customs(&bytes);
                if got != want {
                    customs_mm.push(Mismatch::new("custom_section", "component", format!("top-level custom sections of the encoded component {:?}, of the input {:?}", got, want)));
                }
                false
            } => {}
            Ok(mods) => {
                if mods.len() != twin_bytes.len() {
                    owned.push(Mismatch::new("comp_vs_module_bytes", "module_count", format!("{} vs {}", mods.len(), twin_bytes.len())));
                } else if owned.is_empty() {
                    for (k, (a, b)) in mods.iter().zip(twin_bytes.iter()).enumerate() {
                        if let Ok(b) = b {
                            if a != b {
                                owned.push(Mismatch::new(
                                    "comp_vs_module_bytes",
                                    &crate::checks::diff_site(a, b),
                                    format!("module {k}: component encoding ({} bytes) differs from module encoding ({} bytes)", a.len(), b.len()),
                                ));
                                break;
                            }
                        }
                    }
                }
            }
        },
    }
    (
        // the component's custom sections belong to C28: under C26 they are an observation
        if sc.property == "C28" {
            Judged { owned: customs_mm, others: owned, harness_error: None }
        } else {
            Judged { owned, others: customs_mm, harness_error: None }
        },
        dummy,
    )
}

#[allow(dead_code)]
fn _unused(_: Visit) {}
