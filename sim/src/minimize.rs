//! Deterministic minimisation of a failing scenario: a candidate is kept only if executing it
//! yields a mismatch with the same signature (and its base module still validates).
use crate::checks::judge;
use crate::exec::Scenario;
use crate::ins::Ins;
use crate::model::*;
use crate::spec::*;

/// the fingerprint pair of a body (it may sit anywhere at top level)
fn magic_pair(body: &[Ins]) -> Vec<Ins> {
    match func_magic_of(body) {
        Some(m) => vec![Ins::I64Const(m), Ins::Drop],
        None => body.iter().take(2).cloned().collect(),
    }
}

fn still_fails(id: &str, sc: &Scenario, sig: &str, hs: usize) -> bool {
    if validate(&sc.base.to_bytes()).is_err() {
        return false;
    }
    let (j, _, _) = judge(id, sc, hs);
    j.harness_error.is_none() && j.owned.iter().any(|m| m.sig() == sig)
}

fn normalise(sc: &mut Scenario) {
    // rebuild the schedule so that it matches the remaining ops exactly
    let mut sched = vec![];
    let mut next = vec![0usize; sc.clients.len()];
    for c in sc.schedule.iter() {
        let c = *c as usize;
        if c < sc.clients.len() && next[c] < sc.clients[c].len() {
            sched.push(c as u8);
            next[c] += 1;
        }
    }
    for (c, ops) in sc.clients.iter().enumerate() {
        while next[c] < ops.len() {
            sched.push(c as u8);
            next[c] += 1;
        }
    }
    sc.schedule = sched;
}

/// position of the k-th scheduled op: (client, index within client)
fn flat_positions(sc: &Scenario) -> Vec<(usize, usize)> {
    let mut next = vec![0usize; sc.clients.len()];
    let mut v = vec![];
    for c in &sc.schedule {
        let c = *c as usize;
        if c < sc.clients.len() && next[c] < sc.clients[c].len() {
            v.push((c, next[c]));
            next[c] += 1;
        }
    }
    v
}

fn remove_flat(sc: &Scenario, k: usize) -> Scenario {
    let pos = flat_positions(sc);
    let (c, i) = pos[k];
    let mut s = sc.clone();
    s.clients[c].remove(i);
    // remove the k-th schedule entry that was consumed
    let mut seen = 0;
    let mut next = vec![0usize; sc.clients.len()];
    let mut idx = None;
    for (si, cc) in sc.schedule.iter().enumerate() {
        let cc = *cc as usize;
        if cc < sc.clients.len() && next[cc] < sc.clients[cc].len() {
            if seen == k {
                idx = Some(si);
                break;
            }
            seen += 1;
            next[cc] += 1;
        }
    }
    if let Some(si) = idx {
        s.schedule.remove(si);
    }
    s
}

pub fn minimize(id: &str, sc0: &Scenario, sig: &str, hs: usize) -> Scenario {
    let mut sc = sc0.clone();
    normalise(&mut sc);
    if !still_fails(id, &sc, sig, hs) {
        return sc0.clone();
    }
    let mut budget = 400usize; // candidate executions
    let mut try_c = |cand: Scenario, cur: &mut Scenario, budget: &mut usize| -> bool {
        if *budget == 0 {
            return false;
        }
        *budget -= 1;
        if still_fails(id, &cand, sig, hs) {
            *cur = cand;
            true
        } else {
            false
        }
    };
    // 1. drop whole clients
    let mut c = 0;
    while c < sc.clients.len() {
        if sc.clients[c].is_empty() {
            c += 1;
            continue;
        }
        let mut cand = sc.clone();
        cand.clients[c].clear();
        normalise(&mut cand);
        if !try_c(cand, &mut sc, &mut budget) {
            c += 1;
        }
    }
    // 2. drop ops one at a time until fixpoint
    loop {
        let mut progress = false;
        let mut k = 0;
        while k < flat_positions(&sc).len() {
            let cand = remove_flat(&sc, k);
            if try_c(cand, &mut sc, &mut budget) {
                progress = true;
            } else {
                k += 1;
            }
        }
        if !progress {
            break;
        }
    }
    // 3. tail
    let mut t = 0;
    while sc.tail.len() > 1 && t < sc.tail.len() {
        let mut cand = sc.clone();
        cand.tail.remove(t);
        if !try_c(cand, &mut sc, &mut budget) {
            t += 1;
        }
    }
    // 4. shrink inside ops: sites, probe bodies, built bodies
    for (c, i) in flat_positions(&sc) {
        if let Op::Inject { sites, .. } = &sc.clients[c][i] {
            let mut k = 0;
            let mut n = sites.len();
            while n > 1 && k < n {
                let mut cand = sc.clone();
                if let Op::Inject { sites, .. } = &mut cand.clients[c][i] {
                    sites.remove(k);
                }
                if try_c(cand, &mut sc, &mut budget) {
                    n -= 1;
                } else {
                    k += 1;
                }
            }
            let n = if let Op::Inject { sites, .. } = &sc.clients[c][i] { sites.len() } else { 0 };
            for k in 0..n {
                let mut cand = sc.clone();
                if let Op::Inject { sites, .. } = &mut cand.clients[c][i] {
                    if sites[k].body.len() > 2 {
                        let keep_last = matches!(sites[k].mode, Mode::Alternate) && !matches!(sites[k].body.last(), Some(Ins::Drop));
                        let last = sites[k].body.last().cloned();
                        sites[k].body.truncate(2);
                        if keep_last {
                            sites[k].body.push(last.unwrap());
                        }
                    }
                    sites[k].tag = None;
                }
                try_c(cand, &mut sc, &mut budget);
            }
        }
        if let Op::BuildFunc { .. } | Op::ReplaceImport { .. } = &sc.clients[c][i] {
            let mut cand = sc.clone();
            match &mut cand.clients[c][i] {
                Op::BuildFunc { body, results, locals, .. } | Op::ReplaceImport { body, results, locals, .. } => {
                    let mut b: Vec<Ins> = magic_pair(body);
                    for r in results.iter() {
                        b.push(r.default_ins());
                    }
                    *body = b;
                    locals.clear();
                }
                _ => {}
            }
            try_c(cand, &mut sc, &mut budget);
        }
    }
    // 5. shrink the base module with index-stable edits
    let edits: Vec<fn(&mut ModuleSpec)> = vec![
        |m| m.customs.clear(),
        |m| m.names = NameSpec::default(),
        |m| m.data.clear(),
        |m| m.data_count = false,
        |m| m.start = None,
        |m| m.exports.clear(),
        |m| m.elems.clear(),
        |m| {
            m.tables.clear();
        },
        |m| {
            // minimal bodies
            for k in 0..m.funcs.len() {
                let res = m.func_sig(m.funcs[k].ty).map(|s| s.1).unwrap_or_default();
                let mut b: Vec<Ins> = magic_pair(&m.funcs[k].body);
                for r in res {
                    b.push(r.default_ins());
                }
                b.push(Ins::End);
                m.funcs[k].body = b;
            }
        },
        |m| {
            for f in m.funcs.iter_mut() {
                f.locals.clear();
            }
        },
    ];
    for e in edits {
        let mut cand = sc.clone();
        e(&mut cand.base);
        if cand.base != sc.base {
            try_c(cand, &mut sc, &mut budget);
        }
    }
    // per-function minimal bodies, trailing entity removal
    for k in 0..sc.base.funcs.len() {
        let mut cand = sc.clone();
        let res = cand.base.func_sig(cand.base.funcs[k].ty).map(|s| s.1).unwrap_or_default();
        let mut b: Vec<Ins> = magic_pair(&cand.base.funcs[k].body);
        for r in res {
            b.push(r.default_ins());
        }
        b.push(Ins::End);
        if b != cand.base.funcs[k].body {
            cand.base.funcs[k].body = b;
            try_c(cand, &mut sc, &mut budget);
        }
    }
    for _ in 0..8 {
        let mut progress = false;
        let trailing: Vec<fn(&mut ModuleSpec) -> bool> = vec![
            |m| m.funcs.pop().is_some(),
            |m| m.globals.pop().is_some(),
            |m| m.memories.pop().is_some(),
            |m| m.exports.pop().is_some(),
            |m| m.elems.pop().is_some(),
            |m| m.data.pop().is_some(),
            |m| m.imports.pop().is_some(),
            |m| m.types.pop().is_some(),
        ];
        for e in trailing {
            let mut cand = sc.clone();
            if e(&mut cand.base) && try_c(cand, &mut sc, &mut budget) {
                progress = true;
            }
        }
        if !progress {
            break;
        }
    }
    // 6. hash seed
    for h in [0u64, 1, 2] {
        if sc.hash_seed != h {
            let mut cand = sc.clone();
            cand.hash_seed = h;
            if try_c(cand, &mut sc, &mut budget) {
                break;
            }
        }
    }
    // 7. a second pass of op dropping (base shrinking may have made more ops redundant)
    let mut k = 0;
    while k < flat_positions(&sc).len() {
        let cand = remove_flat(&sc, k);
        if !try_c(cand, &mut sc, &mut budget) {
            k += 1;
        }
    }
    sc
}
