#!/bin/bash
# Runs the repository's own test suite with the verification guard OFF (no RUSTFLAGS, no cfg) and
# checks that every test BASELINE.json lists as stable_pass passes. Exit 0 iff all of them pass.
set -u
unset RUSTFLAGS
export CARGO_NET_OFFLINE=true
cd /repo || exit 2
OUT=$(mktemp)
cargo test --workspace --no-fail-fast --offline >"$OUT" 2>&1
python3 - "$OUT" <<'EOF'
import json, re, sys
out = open(sys.argv[1], errors="replace").read()
base = json.load(open("/root/.vp/BASELINE.json"))
want = set(base["stable_pass"])
cur = None
passed, failed = set(), set()
for line in out.splitlines():
    m = re.match(r"\s*Running (unittests )?(\S+)", line)
    if m:
        p = m.group(2)
        cur = "wirm" if p.startswith("src/") else "wirm::" + p.split("/")[-1].removesuffix(".rs")
        continue
    if re.match(r"\s*Doc-tests", line):
        cur = None
    m = re.match(r"test (\S+)(?: - should panic)? \.\.\. (\w+)", line)
    if m and cur:
        name = cur + "::" + m.group(1)
        (passed if m.group(2) == "ok" else failed).add(name)
missing = sorted(want - passed)
print(f"baseline(guard off): {len(want & passed)}/{len(want)} stable tests pass; {len(failed)} failures overall (45 expected: emptied fixture files)")
if missing:
    print("NOT PASSING:", *missing, sep="\n  ")
    sys.exit(1)
EOF
rc=$?
rm -f "$OUT"
exit $rc
