#!/usr/bin/env python3
# Regenerates the table of second/third-round seeded changes in DESIGN.md (between the SEEDED-TABLE
# markers) from /verif/seeded/*/meta.json.
import json, glob, os
rows = ["| change | needs | detected | what ran / what it forced |", "|---|---|---|---|"]
n_det = n_all = 0
for d in sorted(glob.glob('/verif/seeded/*')):
    n = os.path.basename(d)
    if n.endswith('-a') or not os.path.isdir(d):
        continue
    mp = d + '/meta.json'
    if not os.path.exists(mp):
        rows.append(f"| {n} | (not yet confirmed) | – | – |")
        continue
    m = json.load(open(mp))
    esc = lambda t: t.replace('|', '\\|').replace('\n', ' ')
    n_all += 1
    n_det += 1 if m['detected'] else 0
    why = m.get('why_not_detected', '')
    rows.append(f"| {n} | {esc(m['needs_to_manifest'])} | {'yes' if m['detected'] else '**no**'} | {esc(m['ran'])}{(' — ' + esc(why)) if why else ''} |")
rows.append("")
rows.append(f"({n_det} of {n_all} detected; together with the 24 first-round changes of §7.1: {n_det + 24} of {n_all + 24}.)")
p = '/verif/DESIGN.md'
s = open(p).read()
b, e = '<!-- SEEDED-TABLE-BEGIN -->', '<!-- SEEDED-TABLE-END -->'
i, j = s.index(b) + len(b), s.index(e)
s = s[:i] + "\n" + "\n".join(rows) + "\n" + s[j:]
open(p, 'w').write(s)
print(n_det, n_all)
