#!/bin/bash
# Background sweep: runs a tier of every claimed check (or the ids given) with a private copy of the
# already built simulator binary, writing evidence/replays under $VERIF_OUT (default ./sweep-out) so
# that it neither disturbs nor is disturbed by work going on in /verif and /repo.
#   usage: sweep.sh <tier> [seed] [ids...]
# Not a registered check; used with `vp run -- ./sweep.sh thorough` to look for violations ahead of
# registering evidence (which is always produced by ./check in /verif itself).
set -u
tier=${1:-thorough}; shift || true
seed=${1:-20260921}; shift || true
ids=("$@")
if [ ${#ids[@]} -eq 0 ]; then
  ids=($(jq -r '.checks[].property_id' /verif/MANIFEST.json))
fi
out=${VERIF_OUT:-$PWD/sweep-out}
mkdir -p "$out"
bin="$out/sim-snapshot"
# The binaries are copied ONCE per output directory, at the first invocation (when /verif/target holds a
# build of the unchanged tree): later invocations with other seeds reuse the copy, because /verif/target
# may meanwhile hold a build of /repo with a seeded breaking change applied (tools_try_mutant.sh).
if [ ! -x "$bin" ]; then
  cp /verif/target/release/sim "$bin" || { echo "no built simulator"; exit 2; }
  # the cross-process phase of C04 needs the unhooked build of the SAME sources
  if [ -x /verif/target/unhooked/release/sim ]; then
    cp /verif/target/unhooked/release/sim "$out/sim-unhooked-snapshot"
  fi
fi
[ -x "$out/sim-unhooked-snapshot" ] && export VERIF_UNHOOKED_BIN="$out/sim-unhooked-snapshot"
rc=0
for id in "${ids[@]}"; do
  start=$(date +%s)
  VERIF_OUT="$out" VERIF_SEED="$seed" "$bin" check "$id" --tier "$tier" > "$out/$id.log" 2>&1
  st=$?
  end=$(date +%s)
  echo "$id tier=$tier seed=$seed exit=$st wall=$((end-start))s $(grep -c '^VIOLATION' "$out/$id.log") violations, $(grep -c '^KNOWN-FINDING' "$out/$id.log") known"
  grep '^VIOLATION' "$out/$id.log" | head -5
  [ $st -ne 0 ] && rc=1
done
exit $rc
