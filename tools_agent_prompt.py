#!/usr/bin/env python3
# usage: tools_agent_prompt.py <property id> <worktree> [extra text]  -> prints the prompt for a seeding sub-agent
import json, sys
pid, wt = sys.argv[1], sys.argv[2]
extra = sys.argv[3] if len(sys.argv) > 3 else ""
props = {json.loads(l)["id"]: json.loads(l) for l in open("/verif/properties.jsonl")}
p = props[pid]
t = open("/verif/tools_agent_prompt.txt").read()
t = t.replace("{WT}", wt).replace("{ID}", pid).replace("{TITLE}", p["title"]).replace("{STATEMENT}", p["statement"])
t = t.replace("{EXTRA}", (extra + "\n") if extra else "")
print(t)
