#!/usr/bin/env python3
# usage: tools_meta.py <dir under seeded> <property> <detected true|false> <needs> <ran> [why_not_detected]
import json, sys
d, prop, det, needs, ran = sys.argv[1:6]
m = {
 "breaks_property": prop,
 "source": "independent sub-agent given only the property text and a scratch worktree",
 "needs_to_manifest": needs,
 "confirmed": "tools_verify_mutant.sh: patch applies to clean src, crate compiles, 111/111 baseline tests pass with it, demo fails with patch / passes without",
 "ran": ran,
 "detected": det == "true",
}
if len(sys.argv) > 6:
    m["why_not_detected"] = sys.argv[6]
json.dump(m, open(f"/verif/seeded/{d}/meta.json", "w"), indent=1)
