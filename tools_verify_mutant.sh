#!/bin/bash
# usage: tools_verify_mutant.sh <worktree>   -- confirms a candidate breaking change:
#   patch applies to a clean checkout, crate compiles, 111 baseline tests still pass with it,
#   demo fails with the patch and passes without it.
wt="$1"; cd "$wt" || exit 2
export CARGO_NET_OFFLINE=true
log="$wt/VERIFY.log"; : > "$log"
git checkout -q -- src 2>/dev/null
git apply --check patch.diff >>"$log" 2>&1 || { echo "$wt: patch does not apply to clean src"; exit 1; }
# without patch: demo must pass
cargo test --offline --test mutant_demo >>"$log" 2>&1; r0=$?
git apply patch.diff
cargo test --offline --test mutant_demo >>"$log" 2>&1; r1=$?
# baseline with patch
cargo test --workspace --no-fail-fast --offline > "$wt/BASE.log" 2>&1
python3 - "$wt/BASE.log" <<'PY' > "$wt/BASE.res"
import json, re, sys
out = open(sys.argv[1], errors="replace").read()
base = json.load(open("/root/.vp/BASELINE.json"))
want = set(base["stable_pass"])
cur=None; passed=set()
for line in out.splitlines():
    m = re.match(r"\s*Running (unittests )?(\S+)", line)
    if m:
        p=m.group(2); cur = "wirm" if p.startswith("src/") else "wirm::"+p.split("/")[-1].removesuffix(".rs"); continue
    if re.match(r"\s*Doc-tests", line): cur=None
    m = re.match(r"test (\S+)(?: - should panic)? \.\.\. (\w+)", line)
    if m and cur and m.group(2)=="ok": passed.add(cur+"::"+m.group(1))
print(len(want & passed), sorted(want-passed))
PY
echo "$wt: demo_without_patch_exit=$r0 demo_with_patch_exit=$r1 baseline=$(cat $wt/BASE.res)"
