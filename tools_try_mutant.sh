#!/bin/bash
# usage: tools_try_mutant.sh <patch.diff> <check ids...>: applies a candidate breaking change to /repo,
# runs the given checks (quick), prints their verdicts, and undoes the change straight afterwards.
patch="$1"; shift
cd /repo && git diff --quiet || { echo "/repo has uncommitted changes"; exit 2; }
git -C /repo apply "$patch" || { echo "patch does not apply"; exit 2; }
for id in "$@"; do
  out=$(cd /verif && VERIF_RUNS=${VERIF_RUNS:-} ./check $id quick 2>&1)
  rc=$?
  echo "== $id exit=$rc"
  echo "$out" | grep -E "^VIOLATION|signature|KNOWN|harness" | cut -c1-260 | head -8
done
git -C /repo checkout -- .
# leave /verif/target with a build of the unchanged tree again (background sweeps copy it)
(cd /verif && ./check --build >/dev/null 2>&1)
rm -f /verif/replays/*.json
(cd /verif && git checkout -q -- evidence 2>/dev/null)
