#!/bin/bash
# Determinism proof of the simulator: for every claimed property, N run seeds are executed in
# separate processes at worker counts 1, 5 and 16 (twice at 16) and the order-independent digests of
# the per-run event logs must be identical. Usage: ./determinism.sh [N]   (default 2000)
N=${1:-2000}
cd /verif || exit 2
./check --build >/dev/null 2>&1 || { echo "build failed"; exit 2; }
bad=0; pairs=0
for id in C03 C04 C05 C06 C07 C08 C09 C10 C11 C12 C13 C14 C15 C16 C17 C18 C19 C20 C21 C22 C23 C25 C26 C28 C29 C30; do
  a=$(VERIF_WORKERS=1 ./target/release/sim digest $id $N)
  b=$(VERIF_WORKERS=5 ./target/release/sim digest $id $N)
  c=$(VERIF_WORKERS=16 ./target/release/sim digest $id $N)
  d=$(VERIF_WORKERS=16 ./target/release/sim digest $id $N)
  pairs=$((pairs+3*N))
  if [ "$a" = "$b" ] && [ "$b" = "$c" ] && [ "$c" = "$d" ] && [ -n "$a" ]; then echo "ok   $a"; else echo "DIFF $id: [$a] [$b] [$c] [$d]"; bad=1; fi
done
echo "determinism: $pairs run pairs compared, mismatches: $bad"
exit $bad
